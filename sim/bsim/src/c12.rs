//! C12, Byzantine part: a holder that signs correctly but whose first-party block redeclares a
//! symbol of the default table, a symbol of an earlier block, or a public key an earlier block
//! already interned. Such tokens must be refused by `Biscuit::from` and `UnverifiedBiscuit::from`
//! (an index into the shared tables would otherwise be ambiguous between implementations).
use crate::ast::Alg;
use crate::c09::{byzantine_append, encode_block};
use crate::keys::KeySpec;
use crate::world::Run;
use biscuit_auth::format::schema;
use biscuit_auth::{Biscuit, UnverifiedBiscuit};
use prost::Message;

fn tables(token: &[u8]) -> (Vec<String>, Vec<schema::PublicKey>) {
    let mut syms = Vec::new();
    let mut keys = Vec::new();
    if let Ok(t) = schema::Biscuit::decode(token) {
        for sb in std::iter::once(&t.authority).chain(t.blocks.iter()) {
            if sb.external_signature.is_some() {
                continue;
            }
            if let Ok(b) = schema::Block::decode(&sb.block[..]) {
                syms.extend(b.symbols);
                keys.extend(b.public_keys);
            }
        }
    }
    (syms, keys)
}

impl<'a> Run<'a> {
    pub fn check_c12_byzantine(&mut self, idx: usize) {
        let slot = &self.slots[idx];
        if slot.sealed {
            return;
        }
        let root = self.scn.issuers[slot.issuer].key.keypair().public();
        let bytes = slot.bytes.clone();
        let (syms, keys) = tables(&bytes);
        let next = KeySpec { alg: Alg::Ed25519, seed: 0x12 };
        let mut variants: Vec<(&'static str, schema::Block)> = Vec::new();
        let base = || schema::Block {
            symbols: vec![],
            context: None,
            version: Some(3),
            facts_v2: vec![],
            rules_v2: vec![],
            checks_v2: vec![],
            scope: vec![],
            public_keys: vec![],
        };
        let mut b = base();
        b.symbols.push("read".to_string());
        variants.push(("a symbol of the default table", b));
        if let Some(s) = syms.first() {
            let mut b = base();
            b.symbols.push("fresh_symbol".to_string());
            b.symbols.push(s.clone());
            variants.push(("a symbol of an earlier block", b));
        }
        if let Some(s) = syms.last() {
            let mut b = base();
            b.symbols.push(s.clone());
            variants.push(("the last symbol of an earlier block", b));
        }
        // (a symbol repeated inside one block's own list is not covered by the property's text
        // - "of an earlier block or of the default table" - and the library accepts it: not checked)
        if let Some(k) = keys.first() {
            let mut b = base();
            b.version = Some(4);
            b.public_keys.push(k.clone());
            variants.push(("a public key of an earlier block", b));
        }
        if let Some(k) = keys.last() {
            let fresh = KeySpec { alg: Alg::Ed25519, seed: 0x1212 }.keypair().public().to_proto();
            let mut b = base();
            b.version = Some(4);
            b.public_keys.push(fresh);
            b.public_keys.push(k.clone());
            variants.push(("a new key followed by a public key of an earlier block", b));
        }
        for (what, block) in variants {
            let payload = encode_block(&block);
            let token = match byzantine_append(&bytes, payload, next, 1) {
                Some(t) => t,
                None => continue,
            };
            self.stats.bump("fault.byzantine_redeclaration");
            self.stats.oracle_evals += 1;
            let a = Biscuit::from(&token, root).is_ok();
            let u = UnverifiedBiscuit::from(&token).is_ok();
            if a || u {
                self.violate(
                    "C12",
                    "redeclaration-accepted",
                    format!(
                        "slot {idx}: a correctly signed first-party block redeclaring {what} is accepted (Biscuit::from: {a}, UnverifiedBiscuit::from: {u})"
                    ),
                );
            } else {
                self.stats.bump("c12.redeclaration_refused");
            }
        }
    }
}
