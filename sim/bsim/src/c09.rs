//! C09: untrusted bytes never crash or hang the library. Messages of every kind are taken from a
//! running world, corrupted by byte-level and schema-aware operators and delivered to the
//! matching entry point; a Byzantine holder / issuer / third-party signer produces correctly
//! signed blocks with adversarial contents; whatever object results goes through an accessor
//! sweep (all indices, printing, attenuation, authorizer build + run under small limits and the
//! virtual clock, dump, snapshot, restore). Cases run in supervised child processes.
use crate::ast::Alg;
use crate::driver::{CaseResult, Engine};
use crate::faults::{self, FaultOp};
use crate::keys::KeySpec;
use crate::libeval::{self, Limits};
use crate::refchain;
use crate::rng::Rng;
use crate::world::{self, Monitors, Obj, Profile, Run, Scenario, Stats, Violation};
use biscuit_auth::builder::{AuthorizerBuilder, BlockBuilder};
use biscuit_auth::format::schema;
use biscuit_auth::{Authorizer, Biscuit, KeyPair, PrivateKey, PublicKey, ThirdPartyBlock, ThirdPartyRequest, UnverifiedBiscuit};
use prost::Message;
use serde::{Deserialize, Serialize};
use std::panic::{catch_unwind, AssertUnwindSafe};
use std::str::FromStr;

#[derive(Clone, Debug, PartialEq, Eq, Serialize, Deserialize)]
pub enum ByteMut {
    Flip { o: usize, bit: usize },
    Trunc { n: usize },
    Ext { n: usize },
    Zero { o: usize, len: usize },
    Insert { o: usize, byte: u8, n: usize },
    Dup,
    Empty,
}

#[derive(Clone, Debug, PartialEq, Eq, Serialize, Deserialize)]
pub enum BlockMut {
    SymOob { id: u64 },
    VarOob,
    PredNameOob,
    KeyOob { id: i64 },
    EmptyTerm,
    EmptyScope,
    EmptyOp,
    EmptyMapKey,
    OpsUnderflow,
    OpsOverflow,
    ClosureShadow,
    ClosureInUnary,
    ClosureLeftover,
    UnknownUnary,
    UnknownBinary,
    UnknownCheckKind,
    UnknownScopeType,
    Version { v: Option<u32> },
    DupSymbolDefault,
    DupSymbolPrevious,
    DupKey,
    NestArray { depth: usize },
    NestClosure { depth: usize },
    NestSet { depth: usize },
    NestMap { depth: usize },
    SetMixed,
    SetWithVariable,
    FactWithVariable,
    HeadUnbound,
    FfiNoName,
    FfiUnknownSymbol,
    MapDupKeys,
    BadKeyBytes,
    Garbage { seed: u64 },
    Empty,
    /// well-formed expressions over the ends of every value domain, as literals and as values
    /// bound from facts: every operator must answer or fail cleanly
    EvalEdge { seed: u64 },
    /// a check without any query
    CheckNoQueries,
    /// a check query whose head names a variable the body does not bind, with a matching fact
    CheckHeadUnbound,
}

#[derive(Clone, Debug, PartialEq, Eq, Serialize, Deserialize)]
pub enum SnapMut {
    DropSymbols,
    DropKeys,
    VersionNone,
    Version { v: u32 },
    OriginEmpty,
    OriginHuge,
    IterationsMax,
    LimitsZero,
    LimitsMax,
    ExecTimeMax,
    PolicyKind,
    BlockFactOob,
    AuthorizerBlock(BlockMut),
    TokenBlock(BlockMut),
    ExternalKeyBad,
    /// a policy of a valid kind without any query
    PolicyNoQueries,
    /// a policy whose query head names an unbound variable, with a matching authorizer fact
    PolicyHeadUnbound,
}

#[derive(Clone, Debug, PartialEq, Eq, Serialize, Deserialize)]
pub enum Attack {
    TokenBytes { target: usize, m: ByteMut },
    TokenStructured { target: usize, aux: usize, op: FaultOp },
    ByzantineAppend { target: usize, m: BlockMut },
    ByzantineAuthority { m: BlockMut },
    ByzantineThirdParty { target: usize, signer: usize, m: BlockMut },
    RequestBytes { target: usize, m: ByteMut },
    ResponseBytes { target: usize, resp: usize, m: ByteMut },
    SnapshotBytes { target: usize, m: ByteMut, builder: bool },
    SnapshotStructured { target: usize, m: SnapMut },
    PoliciesBytes { m: ByteMut },
    KeyMaterial { form: u8, alg: Alg, m: ByteMut },
    Source { entry: u8, kind: u8, n: usize, m: ByteMut },
    /// accessor sweep on an untouched token (indices out of range etc.)
    Pristine { target: usize },
}

#[derive(Clone, Debug, Serialize, Deserialize)]
pub struct C09Case {
    pub scenario: Scenario,
    pub attacks: Vec<Attack>,
}

pub struct C09Engine;

fn apply_bytes(m: &ByteMut, v: &[u8]) -> Vec<u8> {
    let mut out = v.to_vec();
    match m {
        ByteMut::Flip { o, bit } => {
            if !out.is_empty() {
                let i = o % out.len();
                out[i] ^= 1 << (bit % 8);
            }
        }
        ByteMut::Trunc { n } => {
            let keep = out.len().saturating_sub(*n);
            out.truncate(keep);
        }
        ByteMut::Ext { n } => out.extend(std::iter::repeat(0x41).take(*n)),
        ByteMut::Zero { o, len } => {
            if !out.is_empty() {
                let s = o % out.len();
                let e = (s + len).min(out.len());
                for b in &mut out[s..e] {
                    *b = 0;
                }
            }
        }
        ByteMut::Insert { o, byte, n } => {
            let i = if out.is_empty() { 0 } else { o % out.len() };
            for _ in 0..*n {
                out.insert(i, *byte);
            }
        }
        ByteMut::Dup => {
            let c = out.clone();
            out.extend(c);
        }
        ByteMut::Empty => out.clear(),
    }
    out
}

fn gen_bytemut(rng: &mut Rng) -> ByteMut {
    match rng.below(9) {
        0 | 1 | 2 => ByteMut::Flip { o: rng.below(4096), bit: rng.below(8) },
        3 => ByteMut::Trunc { n: 1 + rng.below(40) },
        4 => ByteMut::Ext { n: 1 + rng.below(8) },
        5 => ByteMut::Zero { o: rng.below(4096), len: 1 + rng.below(16) },
        6 => ByteMut::Insert { o: rng.below(4096), byte: *rng.pick(&[0u8, 0xff, 0x0a, 0x80, 0x7f, b'(']), n: 1 + rng.below(4) },
        7 => ByteMut::Dup,
        _ => ByteMut::Empty,
    }
}

fn gen_blockmut(rng: &mut Rng) -> BlockMut {
    use BlockMut::*;
    let all = [
        SymOob { id: 1024 + 5000 },
        SymOob { id: 500 },
        SymOob { id: u64::MAX },
        VarOob,
        PredNameOob,
        KeyOob { id: 99 },
        KeyOob { id: -1 },
        KeyOob { id: i64::MAX },
        EmptyTerm,
        EmptyScope,
        EmptyOp,
        EmptyMapKey,
        OpsUnderflow,
        OpsOverflow,
        ClosureShadow,
        ClosureInUnary,
        ClosureLeftover,
        UnknownUnary,
        UnknownBinary,
        UnknownCheckKind,
        UnknownScopeType,
        Version { v: None },
        Version { v: Some(0) },
        Version { v: Some(1) },
        Version { v: Some(2) },
        Version { v: Some(7) },
        Version { v: Some(8) },
        Version { v: Some(u32::MAX) },
        DupSymbolDefault,
        DupSymbolPrevious,
        DupKey,
        NestArray { depth: 20 },
        NestArray { depth: 99 },
        NestArray { depth: 150 },
        NestArray { depth: 3000 },
        NestClosure { depth: 30 },
        NestClosure { depth: 99 },
        NestClosure { depth: 2000 },
        NestSet { depth: 50 },
        NestMap { depth: 60 },
        SetMixed,
        SetWithVariable,
        FactWithVariable,
        HeadUnbound,
        FfiNoName,
        FfiUnknownSymbol,
        MapDupKeys,
        BadKeyBytes,
        Garbage { seed: 1 },
        Garbage { seed: 2 },
        Empty,
        EvalEdge { seed: 1 },
        EvalEdge { seed: 2 },
        EvalEdge { seed: 3 },
        EvalEdge { seed: 4 },
        CheckNoQueries,
        CheckHeadUnbound,
    ];
    let mut m = rng.pick(&all).clone();
    if let Garbage { seed } | EvalEdge { seed } = &mut m {
        *seed = rng.next() >> 8;
    }
    m
}

fn term_int(i: i64) -> schema::TermV2 {
    schema::TermV2 { content: Some(schema::term_v2::Content::Integer(i)) }
}
fn term_var(v: u32) -> schema::TermV2 {
    schema::TermV2 { content: Some(schema::term_v2::Content::Variable(v)) }
}
fn term_str(s: u64) -> schema::TermV2 {
    schema::TermV2 { content: Some(schema::term_v2::Content::String(s)) }
}
fn op_value(t: schema::TermV2) -> schema::Op {
    schema::Op { content: Some(schema::op::Content::Value(t)) }
}
fn op_bin(kind: i32) -> schema::Op {
    schema::Op { content: Some(schema::op::Content::Binary(schema::OpBinary { kind, ffi_name: None })) }
}
fn op_un(kind: i32) -> schema::Op {
    schema::Op { content: Some(schema::op::Content::Unary(schema::OpUnary { kind, ffi_name: None })) }
}
fn pred(name: u64, terms: Vec<schema::TermV2>) -> schema::PredicateV2 {
    schema::PredicateV2 { name, terms }
}
fn check_with_ops(ops: Vec<schema::Op>) -> schema::CheckV2 {
    schema::CheckV2 {
        queries: vec![schema::RuleV2 {
            head: pred(27, vec![]),
            body: vec![],
            expressions: vec![schema::ExpressionV2 { ops }],
            scope: vec![],
        }],
        kind: None,
    }
}
fn fact(p: schema::PredicateV2) -> schema::FactV2 {
    schema::FactV2 { predicate: p }
}

fn nested_array(depth: usize) -> schema::TermV2 {
    let mut t = term_int(1);
    for _ in 0..depth {
        t = schema::TermV2 { content: Some(schema::term_v2::Content::Array(schema::Array { array: vec![t] })) };
    }
    t
}

fn nested_set(depth: usize) -> schema::TermV2 {
    let mut t = term_int(1);
    for _ in 0..depth {
        t = schema::TermV2 { content: Some(schema::term_v2::Content::Set(schema::TermSet { set: vec![t] })) };
    }
    t
}

fn nested_map(depth: usize) -> schema::TermV2 {
    let mut t = term_int(1);
    for _ in 0..depth {
        t = schema::TermV2 {
            content: Some(schema::term_v2::Content::Map(schema::Map {
                entries: vec![schema::MapEntry { key: schema::MapKey { content: Some(schema::map_key::Content::Integer(1)) }, value: t }],
            })),
        };
    }
    t
}

fn nested_closure(depth: usize) -> Vec<schema::Op> {
    // true && (true && (true && ...))
    let mut ops = vec![op_value(schema::TermV2 { content: Some(schema::term_v2::Content::Bool(true)) })];
    for _ in 0..depth {
        ops = vec![
            op_value(schema::TermV2 { content: Some(schema::term_v2::Content::Bool(true)) }),
            schema::Op { content: Some(schema::op::Content::Closure(schema::OpClosure { params: vec![], ops })) },
            op_bin(23),
        ];
    }
    ops
}

/// `q($9) <- resource($8)`: the head variable is not bound by the body
fn head_unbound_query() -> schema::RuleV2 {
    schema::RuleV2 { head: pred(27, vec![term_var(9)]), body: vec![pred(2, vec![term_var(8)])], expressions: vec![], scope: vec![] }
}

fn edge_terms() -> Vec<schema::TermV2> {
    use schema::term_v2::Content as C;
    let t = |c: C| schema::TermV2 { content: Some(c) };
    let mut v: Vec<schema::TermV2> = [i64::MIN, i64::MIN + 1, -1, 0, 1, 2, 63, 64, 65, i64::MAX].iter().map(|i| term_int(*i)).collect();
    v.push(term_str(0));
    v.push(term_str(27));
    v.push(t(C::Date(0)));
    v.push(t(C::Date(u64::MAX)));
    v.push(t(C::Bytes(vec![])));
    v.push(t(C::Bytes(vec![0xff])));
    v.push(t(C::Bool(true)));
    v.push(t(C::Bool(false)));
    v.push(t(C::Set(schema::TermSet { set: vec![] })));
    v.push(t(C::Set(schema::TermSet { set: vec![term_int(1)] })));
    v.push(t(C::Set(schema::TermSet { set: vec![term_int(i64::MIN), term_int(-1)] })));
    v.push(t(C::Null(schema::Empty {})));
    v.push(t(C::Array(schema::Array { array: vec![] })));
    v.push(t(C::Array(schema::Array { array: vec![term_int(-1), term_int(i64::MIN)] })));
    v.push(t(C::Map(schema::Map { entries: vec![] })));
    v.push(t(C::Map(schema::Map {
        entries: vec![schema::MapEntry { key: schema::MapKey { content: Some(schema::map_key::Content::Integer(i64::MIN)) }, value: term_int(-1) }],
    })));
    v
}

/// adds one adversarial item to a (legitimate) block
pub fn mutate_block(b: &mut schema::Block, m: &BlockMut, previous_symbols: &[String]) -> Option<Vec<u8>> {
    use BlockMut::*;
    if b.version.is_none() {
        b.version = Some(3);
    }
    match m {
        SymOob { id } => b.facts_v2.push(fact(pred(2, vec![term_str(*id)]))),
        VarOob => b.rules_v2.push(schema::RuleV2 {
            head: pred(2, vec![term_var(70000)]),
            body: vec![pred(2, vec![term_var(70000)])],
            expressions: vec![],
            scope: vec![],
        }),
        PredNameOob => b.facts_v2.push(fact(pred(900_000, vec![term_int(1)]))),
        KeyOob { id } => {
            b.version = Some(b.version.unwrap_or(3).max(4));
            b.scope.push(schema::Scope { content: Some(schema::scope::Content::PublicKey(*id)) });
        }
        EmptyTerm => b.facts_v2.push(fact(pred(2, vec![schema::TermV2 { content: None }]))),
        EmptyScope => {
            b.version = Some(b.version.unwrap_or(3).max(4));
            b.scope.push(schema::Scope { content: None });
        }
        EmptyOp => b.checks_v2.push(check_with_ops(vec![schema::Op { content: None }])),
        EmptyMapKey => {
            b.version = Some(6);
            b.facts_v2.push(fact(pred(
                2,
                vec![schema::TermV2 {
                    content: Some(schema::term_v2::Content::Map(schema::Map {
                        entries: vec![schema::MapEntry { key: schema::MapKey { content: None }, value: term_int(1) }],
                    })),
                }],
            )));
        }
        OpsUnderflow => b.checks_v2.push(check_with_ops(vec![op_bin(9)])),
        OpsOverflow => b.checks_v2.push(check_with_ops(vec![op_value(term_int(1)), op_value(term_int(2)), op_value(term_int(3))])),
        ClosureShadow => {
            b.version = Some(6);
            // [1].any($p -> [2].any($p -> $p == 2))
            let inner = vec![op_value(term_var(5)), op_value(term_int(2)), op_bin(21)];
            let mid = vec![
                op_value(nested_array(1)),
                schema::Op { content: Some(schema::op::Content::Closure(schema::OpClosure { params: vec![5], ops: inner })) },
                op_bin(26),
            ];
            b.checks_v2.push(check_with_ops(vec![
                op_value(nested_array(1)),
                schema::Op { content: Some(schema::op::Content::Closure(schema::OpClosure { params: vec![5], ops: mid })) },
                op_bin(26),
            ]));
        }
        ClosureInUnary => {
            b.version = Some(6);
            b.checks_v2.push(check_with_ops(vec![
                schema::Op { content: Some(schema::op::Content::Closure(schema::OpClosure { params: vec![1], ops: vec![op_value(term_int(1))] })) },
                op_un(0),
            ]));
        }
        ClosureLeftover => {
            b.version = Some(6);
            b.checks_v2.push(check_with_ops(vec![schema::Op {
                content: Some(schema::op::Content::Closure(schema::OpClosure { params: vec![1, 2, 3], ops: vec![] })),
            }]));
        }
        UnknownUnary => b.checks_v2.push(check_with_ops(vec![op_value(term_int(1)), op_un(99)])),
        UnknownBinary => b.checks_v2.push(check_with_ops(vec![op_value(term_int(1)), op_value(term_int(1)), op_bin(99)])),
        UnknownCheckKind => {
            b.version = Some(6);
            let mut c = check_with_ops(vec![op_value(schema::TermV2 { content: Some(schema::term_v2::Content::Bool(true)) })]);
            c.kind = Some(7);
            b.checks_v2.push(c);
        }
        UnknownScopeType => {
            b.version = Some(b.version.unwrap_or(3).max(4));
            b.scope.push(schema::Scope { content: Some(schema::scope::Content::ScopeType(5)) });
        }
        Version { v } => b.version = *v,
        DupSymbolDefault => b.symbols.push("read".to_string()),
        DupSymbolPrevious => match previous_symbols.first() {
            Some(s) => b.symbols.push(s.clone()),
            None => {
                b.symbols.push("dup".to_string());
                b.symbols.push("dup".to_string());
            }
        },
        DupKey => {
            let k = KeySpec { alg: Alg::Ed25519, seed: 4242 }.keypair().public().to_proto();
            b.public_keys.push(k.clone());
            b.public_keys.push(k);
        }
        NestArray { depth } => {
            b.version = Some(6);
            b.facts_v2.push(fact(pred(2, vec![nested_array(*depth)])));
        }
        NestClosure { depth } => {
            b.version = Some(6);
            b.checks_v2.push(check_with_ops(nested_closure(*depth)));
        }
        NestSet { depth } => b.facts_v2.push(fact(pred(2, vec![nested_set(*depth)]))),
        NestMap { depth } => {
            b.version = Some(6);
            b.facts_v2.push(fact(pred(2, vec![nested_map(*depth)])));
        }
        SetMixed => b.facts_v2.push(fact(pred(
            2,
            vec![schema::TermV2 { content: Some(schema::term_v2::Content::Set(schema::TermSet { set: vec![term_int(1), term_str(0)] })) }],
        ))),
        SetWithVariable => b.facts_v2.push(fact(pred(
            2,
            vec![schema::TermV2 { content: Some(schema::term_v2::Content::Set(schema::TermSet { set: vec![term_var(1)] })) }],
        ))),
        FactWithVariable => b.facts_v2.push(fact(pred(2, vec![term_var(3)]))),
        HeadUnbound => b.rules_v2.push(schema::RuleV2 {
            head: pred(2, vec![term_var(7)]),
            body: vec![pred(3, vec![term_var(8)])],
            expressions: vec![],
            scope: vec![],
        }),
        FfiNoName => {
            b.version = Some(6);
            b.checks_v2.push(check_with_ops(vec![op_value(term_int(1)), op_un(4)]));
        }
        FfiUnknownSymbol => {
            b.version = Some(6);
            b.checks_v2.push(check_with_ops(vec![
                op_value(term_int(1)),
                schema::Op { content: Some(schema::op::Content::Unary(schema::OpUnary { kind: 4, ffi_name: Some(99_999) })) },
            ]));
        }
        MapDupKeys => {
            b.version = Some(6);
            let e = schema::MapEntry { key: schema::MapKey { content: Some(schema::map_key::Content::Integer(1)) }, value: term_int(1) };
            b.facts_v2.push(fact(pred(
                2,
                vec![schema::TermV2 { content: Some(schema::term_v2::Content::Map(schema::Map { entries: vec![e.clone(), e] })) }],
            )));
        }
        BadKeyBytes => b.public_keys.push(schema::PublicKey { algorithm: 1, key: vec![2; 33] }),
        Garbage { seed } => {
            let mut rng = Rng::derive(*seed, "garbage", 0);
            let n = rng.range(1, 40);
            return Some((0..n).map(|_| rng.next() as u8).collect());
        }
        EvalEdge { seed } => {
            b.version = Some(6);
            let mut rng = Rng::derive(*seed, "evaledge", 0);
            let terms = edge_terms();
            // integer operands more often than the rest: arithmetic has the most edges
            let pick = |rng: &mut Rng| if rng.chance(1, 2) { terms[rng.below(10)].clone() } else { rng.pick(&terms).clone() };
            // the same values as plain facts `time(v)` (default symbol 5), for the typed
            // extraction of query results
            for _ in 0..4 {
                let t = rng.pick(&terms).clone();
                b.facts_v2.push(fact(pred(5, vec![t])));
            }
            for _ in 0..24 {
                let (a, c) = (pick(&mut rng), pick(&mut rng));
                let kind = rng.below(28) as i32;
                match rng.below(6) {
                    0 => b.checks_v2.push(check_with_ops(vec![op_value(a), op_un(rng.below(4) as i32)])),
                    1 => {
                        // operands bound from facts, evaluated inside a rule
                        b.facts_v2.push(fact(pred(5, vec![a, c])));
                        b.rules_v2.push(schema::RuleV2 {
                            head: pred(6, vec![term_var(0)]),
                            body: vec![pred(5, vec![term_var(0), term_var(1)])],
                            expressions: vec![schema::ExpressionV2 { ops: vec![op_value(term_var(0)), op_value(term_var(1)), op_bin(kind)] }],
                            scope: vec![],
                        });
                    }
                    2 => {
                        let d = pick(&mut rng);
                        let k2 = rng.below(28) as i32;
                        b.checks_v2.push(check_with_ops(vec![op_value(a), op_value(c), op_bin(kind), op_value(d), op_bin(k2)]));
                    }
                    _ => b.checks_v2.push(check_with_ops(vec![op_value(a), op_value(c), op_bin(kind)])),
                }
            }
        }
        CheckNoQueries => b.checks_v2.push(schema::CheckV2 { queries: vec![], kind: None }),
        CheckHeadUnbound => {
            b.facts_v2.push(fact(pred(2, vec![term_int(1)])));
            b.checks_v2.push(schema::CheckV2 { queries: vec![head_unbound_query()], kind: None });
        }
        Empty => {
            *b = schema::Block {
                symbols: vec![],
                context: None,
                version: None,
                facts_v2: vec![],
                rules_v2: vec![],
                checks_v2: vec![],
                scope: vec![],
                public_keys: vec![],
            }
        }
    }
    None
}

struct Ctx<'a> {
    out: &'a mut Vec<Violation>,
    stats: &'a mut Stats,
    attack: String,
}

impl<'a> Ctx<'a> {
    /// runs one library call; a panic is the violation
    fn guard<T>(&mut self, label: &str, f: impl FnOnce() -> T) -> Option<T> {
        self.stats.oracle_evals += 1;
        match catch_unwind(AssertUnwindSafe(f)) {
            Ok(v) => Some(v),
            Err(p) => {
                let msg = if let Some(s) = p.downcast_ref::<String>() {
                    s.clone()
                } else if let Some(s) = p.downcast_ref::<&str>() {
                    s.to_string()
                } else {
                    "panic".to_string()
                };
                let loc = crate::panic_location();
                self.stats.bump("c09.panics");
                self.out.push(Violation {
                    property: "C09".to_string(),
                    class: "panic".to_string(),
                    event: None,
                    detail: format!("call={label} panics at {loc}: {} ;; attack {}", msg.chars().take(160).collect::<String>(), self.attack),
                    focus: None,
                });
                None
            }
        }
    }
}

const SMALL: Limits = Limits { max_facts: 300, max_iterations: 20, max_time_ns: 1_000_000 };

fn install_clock() {
    biscuit_auth::verif::install_clock(biscuit_auth::verif::ClockScript { per_tick_ns: 1000, stall_at: None });
}

fn sweep_authorizer(cx: &mut Ctx, a: &mut Authorizer, depth: u32) {
    install_clock();
    cx.guard("Authorizer::run", || a.run().is_ok());
    cx.guard("Authorizer::authorize", || a.authorize().is_ok());
    cx.guard("Authorizer::authorize (again)", || a.authorize().is_ok());
    cx.guard("Authorizer::query", || {
        let r: Result<Vec<biscuit_auth::builder::Fact>, _> = a.query("data($x) <- resource($x)");
        r.is_ok()
    });
    cx.guard("Authorizer::query_all", || {
        let r: Result<Vec<biscuit_auth::builder::Fact>, _> = a.query_all("data($x, $y) <- right($x, $y) trusting previous");
        r.is_ok()
    });
    // typed extraction of query results: every conversion answers or refuses
    cx.guard("Authorizer::query::<(SystemTime,)>", || {
        let r: Result<Vec<(std::time::SystemTime,)>, _> = a.query_all("data($t) <- time($t)");
        r.is_ok()
    });
    cx.guard("Authorizer::query::<(i64,)>", || {
        let r: Result<Vec<(i64,)>, _> = a.query_all("data($t) <- time($t)");
        r.is_ok()
    });
    cx.guard("Authorizer::query::<(String,)>", || {
        let r: Result<Vec<(String,)>, _> = a.query_all("data($t) <- time($t)");
        r.is_ok()
    });
    cx.guard("Authorizer::query::<(Vec<u8>, bool)>", || {
        let r: Result<Vec<(Vec<u8>, bool)>, _> = a.query_all("data($t, $u) <- time($t, $u)");
        r.is_ok()
    });
    cx.guard("Authorizer::authorize_with_limits", || a.authorize_with_limits(SMALL.to_lib()).is_ok());
    cx.guard("Authorizer::print_world", || a.print_world().len());
    cx.guard("Authorizer::dump", || a.dump().0.len());
    cx.guard("Authorizer::dump_code", || a.dump_code().len());
    cx.guard("Authorizer::to_string", || a.to_string().len());
    cx.guard("Authorizer::iterations/fact_count/limits", || (a.iterations(), a.fact_count(), a.limits().max_facts));
    cx.guard("Authorizer::save", || a.save().map(|p| p.serialize().map(|b| b.len())).is_ok());
    let snap = cx.guard("Authorizer::to_raw_snapshot", || a.to_raw_snapshot().ok()).flatten();
    cx.guard("Authorizer::to_base64_snapshot", || a.to_base64_snapshot().is_ok());
    cx.guard("Authorizer::clone", || a.clone().fact_count());
    if let (Some(bytes), true) = (snap, depth == 0) {
        if let Some(Ok(mut b)) = cx.guard("Authorizer::from_raw_snapshot(own snapshot)", || Authorizer::from_raw_snapshot(&bytes)) {
            sweep_authorizer(cx, &mut b, depth + 1);
        }
    }
}

fn sweep_biscuit(cx: &mut Ctx, b: &Biscuit) {
    cx.stats.bump("c09.sweep_biscuit");
    cx.guard("Biscuit::print", || b.print().len());
    cx.guard("Biscuit::to_string", || b.to_string().len());
    let n = cx.guard("Biscuit::block_count", || b.block_count()).unwrap_or(1);
    for i in (0..n + 3).chain([usize::MAX, usize::MAX - 1]) {
        cx.guard(&format!("Biscuit::print_block_source({})", idx(i, n)), || b.print_block_source(i).is_ok());
        cx.guard(&format!("Biscuit::block_version({})", idx(i, n)), || b.block_version(i).is_ok());
        cx.guard(&format!("Biscuit::block_symbols({})", idx(i, n)), || b.block_symbols(i).is_ok());
        cx.guard(&format!("Biscuit::block_public_keys({})", idx(i, n)), || b.block_public_keys(i).is_ok());
        cx.guard(&format!("Biscuit::block_external_key({})", idx(i, n)), || b.block_external_key(i).is_ok());
    }
    cx.guard("Biscuit::context", || b.context().len());
    cx.guard("Biscuit::root_key_id", || b.root_key_id());
    cx.guard("Biscuit::revocation_identifiers", || b.revocation_identifiers().len());
    cx.guard("Biscuit::external_public_keys", || b.external_public_keys().len());
    cx.guard("Biscuit::container", || b.container().blocks.len());
    cx.guard("Biscuit::to_vec", || b.to_vec().is_ok());
    cx.guard("Biscuit::to_base64", || b.to_base64().is_ok());
    cx.guard("Biscuit::serialized_size", || b.serialized_size().is_ok());
    cx.guard("Biscuit::seal", || b.seal().map(|s| s.seal().is_ok()).is_ok());
    let kp = KeySpec { alg: Alg::Ed25519, seed: 99 }.keypair();
    cx.guard("Biscuit::append(empty)", || b.append_with_keypair(&kp, BlockBuilder::new()).is_ok());
    cx.guard("Biscuit::append(block)", || {
        let bb = BlockBuilder::new().code("resource(\"file1\"); check if right($a, \"read\") trusting previous;").unwrap();
        b.append_with_keypair(&kp, bb).map(|t| t.print().len()).is_ok()
    });
    cx.guard("Biscuit::third_party_request", || {
        b.third_party_request().map(|r| r.serialize().is_ok()).is_ok()
    });
    install_clock();
    if let Some(Ok(mut a)) = cx.guard("Biscuit::authorizer", || b.authorizer()) {
        sweep_authorizer(cx, &mut a, 0);
    }
    let built = cx.guard("AuthorizerBuilder::build(token)", || {
        AuthorizerBuilder::new()
            .code("resource(\"file1\"); operation(\"read\"); can($x) <- right($x, \"read\"), resource($x); check if can($x) or true; allow if true;")
            .unwrap()
            .limits(SMALL.to_lib())
            .build(b)
    });
    if let Some(Ok(mut a)) = built {
        cx.stats.bump("c09.authorizer_built");
        sweep_authorizer(cx, &mut a, 0);
    }
}

fn idx(i: usize, n: usize) -> String {
    if i < n {
        "in range".to_string()
    } else if i == n {
        "count".to_string()
    } else if i > n + 10 {
        "huge".to_string()
    } else {
        format!("count+{}", i - n)
    }
}

fn sweep_unverified(cx: &mut Ctx, u: &UnverifiedBiscuit, root: PublicKey) {
    cx.stats.bump("c09.sweep_unverified");
    let n = cx.guard("UnverifiedBiscuit::block_count", || u.block_count()).unwrap_or(1);
    for i in (0..n + 3).chain([usize::MAX]) {
        cx.guard(&format!("UnverifiedBiscuit::print_block_source({})", idx(i, n)), || u.print_block_source(i).is_ok());
        cx.guard(&format!("UnverifiedBiscuit::block_version({})", idx(i, n)), || u.block_version(i).is_ok());
    }
    cx.guard("UnverifiedBiscuit::revocation_identifiers", || u.revocation_identifiers().len());
    cx.guard("UnverifiedBiscuit::external_public_keys", || u.external_public_keys().len());
    cx.guard("UnverifiedBiscuit::root_key_id", || u.root_key_id());
    cx.guard("UnverifiedBiscuit::to_vec", || u.to_vec().is_ok());
    cx.guard("UnverifiedBiscuit::to_base64", || u.to_base64().is_ok());
    cx.guard("UnverifiedBiscuit::seal", || u.seal().is_ok());
    let kp = KeySpec { alg: Alg::Ed25519, seed: 98 }.keypair();
    cx.guard("UnverifiedBiscuit::append", || {
        let bb = BlockBuilder::new().code("resource(\"file1\");").unwrap();
        u.append_with_keypair(&kp, bb).is_ok()
    });
    cx.guard("UnverifiedBiscuit::third_party_request", || u.third_party_request().is_ok());
    if let Some(Ok(b)) = cx.guard("UnverifiedBiscuit::verify", || u.clone().verify(root)) {
        sweep_biscuit(cx, &b);
    }
}

fn deliver_token(cx: &mut Ctx, bytes: &[u8], root: PublicKey) {
    if let Some(Ok(b)) = cx.guard("Biscuit::from", || Biscuit::from(bytes, root)) {
        cx.stats.bump("c09.token_accepted");
        sweep_biscuit(cx, &b);
    } else {
        cx.stats.bump("c09.token_rejected");
    }
    let b64 = base64::encode_config(bytes, base64::URL_SAFE);
    cx.guard("Biscuit::from_base64", || Biscuit::from_base64(&b64, root).is_ok());
    cx.guard("Biscuit::from_base64(raw bytes)", || Biscuit::from_base64(bytes, root).is_ok());
    cx.guard("Biscuit::unsafe_deprecated_deserialize", || Biscuit::unsafe_deprecated_deserialize(bytes, root).is_ok());
    if let Some(Ok(u)) = cx.guard("UnverifiedBiscuit::from", || UnverifiedBiscuit::from(bytes)) {
        sweep_unverified(cx, &u, root);
    }
    cx.guard("UnverifiedBiscuit::from_base64", || UnverifiedBiscuit::from_base64(&b64).is_ok());
    cx.guard("UnverifiedBiscuit::unsafe_deprecated_deserialize", || UnverifiedBiscuit::unsafe_deprecated_deserialize(bytes).is_ok());
}

/// appends `payload` as one more first-party block, signed with the token's own proof secret
pub fn byzantine_append(token: &[u8], payload: Vec<u8>, next: KeySpec, sig_version: u32) -> Option<Vec<u8>> {
    let mut t = schema::Biscuit::decode(token).ok()?;
    let secret = match &t.proof.content {
        Some(schema::proof::Content::NextSecret(s)) => s.clone(),
        _ => return None,
    };
    let last = t.blocks.last().unwrap_or(&t.authority).clone();
    let alg = if last.next_key.algorithm == 1 { Alg::P256 } else { Alg::Ed25519 };
    let msg = refchain::block_payload(sig_version, &payload, &next.rkey(), Some(&last.signature), None).ok()?;
    let sig = refchain::sign(alg, &secret, &msg).ok()?;
    t.blocks.push(schema::SignedBlock {
        block: payload,
        next_key: next.keypair().public().to_proto(),
        signature: sig,
        external_signature: None,
        version: if sig_version > 0 { Some(sig_version) } else { None },
    });
    t.proof.content = Some(schema::proof::Content::NextSecret(next.secret()));
    let mut v = Vec::new();
    t.encode(&mut v).ok()?;
    Some(v)
}

pub fn legit_block_payload(token: &[u8], i: usize) -> Option<schema::Block> {
    let t = schema::Biscuit::decode(token).ok()?;
    let sb = if i == 0 { &t.authority } else { t.blocks.get(i - 1)? };
    schema::Block::decode(&sb.block[..]).ok()
}

fn all_symbols(token: &[u8]) -> Vec<String> {
    let mut out = Vec::new();
    if let Ok(t) = schema::Biscuit::decode(token) {
        for sb in std::iter::once(&t.authority).chain(t.blocks.iter()) {
            if let Ok(b) = schema::Block::decode(&sb.block[..]) {
                out.extend(b.symbols);
            }
        }
    }
    out
}

pub fn encode_block(b: &schema::Block) -> Vec<u8> {
    let mut v = Vec::new();
    let _ = b.encode(&mut v);
    v
}

impl C09Engine {
    fn attack(&self, run: &Run, a: &Attack, cx: &mut Ctx) {
        let nslots = run.slots.len();
        if nslots == 0 {
            return;
        }
        let slot = |t: usize| &run.slots[t % nslots];
        let root_of = |t: usize| run.scn.issuers[slot(t).issuer].key.keypair().public();
        match a {
            Attack::Pristine { target } => {
                cx.stats.bump("fault.none_pristine_sweep");
                deliver_token(cx, &slot(*target).bytes, root_of(*target));
                match &slot(*target).obj {
                    Obj::V(b) => sweep_biscuit(cx, b),
                    Obj::U(u) => sweep_unverified(cx, u, root_of(*target)),
                }
            }
            Attack::TokenBytes { target, m } => {
                cx.stats.bump("fault.token_bytes");
                let bytes = apply_bytes(m, &slot(*target).bytes);
                deliver_token(cx, &bytes, root_of(*target));
            }
            Attack::TokenStructured { target, aux, op } => {
                cx.stats.bump("fault.token_structured");
                if let Some(bytes) = faults::apply(op, &slot(*target).bytes, Some(&slot(*aux).bytes)) {
                    deliver_token(cx, &bytes, root_of(*target));
                }
            }
            Attack::ByzantineAppend { target, m } => {
                let s = slot(*target);
                if s.sealed {
                    return;
                }
                cx.stats.bump("fault.byzantine_first_party");
                let n = s.ghost.len();
                let mut block = legit_block_payload(&s.bytes, n - 1).unwrap_or_default();
                block.symbols.clear();
                block.public_keys.clear();
                let payload = match mutate_block(&mut block, m, &all_symbols(&s.bytes)) {
                    Some(raw) => raw,
                    None => encode_block(&block),
                };
                for sig_version in [1u32, 0] {
                    if let Some(bytes) = byzantine_append(&s.bytes, payload.clone(), KeySpec { alg: Alg::Ed25519, seed: 31337 }, sig_version) {
                        deliver_token(cx, &bytes, root_of(*target));
                    }
                }
            }
            Attack::ByzantineAuthority { m } => {
                cx.stats.bump("fault.byzantine_issuer");
                let spec = &run.scn.issuers[0];
                let mut block = legit_block_payload(&run.slots[0].bytes, 0).unwrap_or_default();
                let payload = match mutate_block(&mut block, m, &[]) {
                    Some(raw) => raw,
                    None => encode_block(&block),
                };
                let next = KeySpec { alg: Alg::Ed25519, seed: 31338 };
                for version in [1u32, 0] {
                    if let Ok(bytes) = refchain::sign_token(
                        spec.key.alg,
                        &spec.key.secret(),
                        spec.root_key_id,
                        &[refchain::SignBlock { payload: payload.clone(), next_alg: next.alg, next_secret: next.secret(), external: None, version }],
                        false,
                    ) {
                        deliver_token(cx, &bytes, spec.key.keypair().public());
                    }
                }
            }
            Attack::ByzantineThirdParty { target, signer, m } => {
                let s = slot(*target);
                if s.sealed || run.scn.signers.is_empty() {
                    return;
                }
                cx.stats.bump("fault.byzantine_third_party");
                let signer = run.scn.signers[*signer % run.scn.signers.len()];
                let mut block = schema::Block {
                    symbols: vec!["tp".to_string()],
                    context: None,
                    version: Some(5),
                    facts_v2: vec![fact(pred(1024, vec![term_int(1)]))],
                    rules_v2: vec![],
                    checks_v2: vec![],
                    scope: vec![],
                    public_keys: vec![],
                };
                let payload = match mutate_block(&mut block, m, &all_symbols(&s.bytes)) {
                    Some(raw) => raw,
                    None => encode_block(&block),
                };
                let prev_sig = match refchain::content_of(&s.bytes) {
                    Ok((_, c)) => c.blocks.last().unwrap().signature.clone(),
                    Err(_) => return,
                };
                let sig = match refchain::sign(signer.alg, &signer.secret(), &refchain::external_payload(&payload, &prev_sig)) {
                    Ok(s) => s,
                    Err(_) => return,
                };
                let contents = schema::ThirdPartyBlockContents {
                    payload,
                    external_signature: schema::ExternalSignature { signature: sig, public_key: signer.keypair().public().to_proto() },
                };
                let mut resp = Vec::new();
                let _ = contents.encode(&mut resp);
                let root = root_of(*target);
                let next = KeySpec { alg: Alg::Ed25519, seed: 31339 };
                if let Some(Ok(u)) = cx.guard("UnverifiedBiscuit::from", || UnverifiedBiscuit::from(&s.bytes)) {
                    if let Some(Ok(u2)) = cx.guard("UnverifiedBiscuit::append_third_party", || u.append_third_party_with_keypair(&resp, next.keypair())) {
                        sweep_unverified(cx, &u2, root);
                        if let Some(Some(bytes)) = cx.guard("UnverifiedBiscuit::to_vec", || u2.to_vec().ok()) {
                            deliver_token(cx, &bytes, root);
                        }
                    }
                    cx.guard("UnverifiedBiscuit::append_third_party_base64", || {
                        u.append_third_party_base64(base64::encode_config(&resp, base64::URL_SAFE)).is_ok()
                    });
                }
                if let Some(Ok(b)) = cx.guard("Biscuit::from", || Biscuit::from(&s.bytes, root)) {
                    if let Some(Ok(tpb)) = cx.guard("ThirdPartyBlock::from bytes", || ThirdPartyBlock::verif_from_bytes(&resp)) {
                        if let Some(Ok(b2)) = cx.guard("Biscuit::append_third_party", || b.append_third_party_with_keypair(signer.keypair().public(), tpb, next.keypair())) {
                            sweep_biscuit(cx, &b2);
                        }
                    }
                }
            }
            Attack::RequestBytes { target, m } => {
                cx.stats.bump("fault.request_bytes");
                let base = match run.reqs.get(*target % run.reqs.len().max(1)) {
                    Some(r) => r.bytes.clone(),
                    None => {
                        let s = slot(*target);
                        match &s.obj {
                            Obj::V(b) => b.third_party_request().ok().and_then(|r| r.serialize().ok()).unwrap_or_default(),
                            Obj::U(u) => u.third_party_request().ok().and_then(|r| r.serialize().ok()).unwrap_or_default(),
                        }
                    }
                };
                let bytes = apply_bytes(m, &base);
                let signer = KeySpec { alg: Alg::Ed25519, seed: 5 }.keypair();
                if let Some(Ok(req)) = cx.guard("ThirdPartyRequest::deserialize", || ThirdPartyRequest::deserialize(&bytes)) {
                    cx.guard("ThirdPartyRequest::create_block", || {
                        req.create_block(&signer.private(), BlockBuilder::new().code("x(1);").unwrap()).map(|b| b.serialize().is_ok()).is_ok()
                    });
                }
                cx.guard("ThirdPartyRequest::deserialize_base64", || {
                    ThirdPartyRequest::deserialize_base64(base64::encode_config(&bytes, base64::URL_SAFE)).is_ok()
                });
                cx.guard("ThirdPartyRequest::deserialize_base64(raw)", || ThirdPartyRequest::deserialize_base64(&bytes).is_ok());
            }
            Attack::ResponseBytes { target, resp, m } => {
                if run.resps.is_empty() {
                    return;
                }
                cx.stats.bump("fault.response_bytes");
                let r = &run.resps[*resp % run.resps.len()];
                let bytes = apply_bytes(m, &r.bytes);
                let s = slot(*target);
                let root = root_of(*target);
                let next = KeySpec { alg: Alg::Ed25519, seed: 31340 };
                if let Some(Ok(u)) = cx.guard("UnverifiedBiscuit::from", || UnverifiedBiscuit::from(&s.bytes)) {
                    if let Some(Ok(u2)) = cx.guard("UnverifiedBiscuit::append_third_party", || u.append_third_party_with_keypair(&bytes, next.keypair())) {
                        sweep_unverified(cx, &u2, root);
                    }
                    cx.guard("UnverifiedBiscuit::append_third_party_base64", || {
                        u.append_third_party_base64(base64::encode_config(&bytes, base64::URL_SAFE)).is_ok()
                    });
                }
                if let Some(Ok(b)) = cx.guard("Biscuit::from", || Biscuit::from(&s.bytes, root)) {
                    if let Some(Ok(tpb)) = cx.guard("ThirdPartyBlock::from bytes", || ThirdPartyBlock::verif_from_bytes(&bytes)) {
                        let key = run.scn.signers[r.signer % run.scn.signers.len()].keypair().public();
                        if let Some(Ok(b2)) = cx.guard("Biscuit::append_third_party", || b.append_third_party_with_keypair(key, tpb, next.keypair())) {
                            sweep_biscuit(cx, &b2);
                        }
                    }
                }
            }
            Attack::SnapshotBytes { target, m, builder } => {
                cx.stats.bump("fault.snapshot_bytes");
                let spec = &run.scn.verifiers[0];
                let s = slot(*target);
                let root = root_of(*target);
                libeval::install(run.scn.hash_key);
                let base: Vec<u8> = if *builder {
                    spec.authorizer.to_builder().ok().and_then(|ab| ab.to_raw_snapshot().ok()).unwrap_or_default()
                } else {
                    match Biscuit::from(&s.bytes, root) {
                        Ok(b) => match libeval::build_authorizer(Some(&b), &spec.authorizer, SMALL) {
                            Ok(mut a) => {
                                let _ = catch_unwind(AssertUnwindSafe(|| a.authorize().is_ok()));
                                a.to_raw_snapshot().unwrap_or_default()
                            }
                            Err(_) => return,
                        },
                        Err(_) => return,
                    }
                };
                let bytes = apply_bytes(m, &base);
                self.deliver_snapshot(cx, &bytes);
            }
            Attack::SnapshotStructured { target, m } => {
                cx.stats.bump("fault.snapshot_structured");
                let spec = &run.scn.verifiers[0];
                let s = slot(*target);
                let root = root_of(*target);
                libeval::install(run.scn.hash_key);
                let base = match Biscuit::from(&s.bytes, root) {
                    Ok(b) => match libeval::build_authorizer(Some(&b), &spec.authorizer, SMALL) {
                        Ok(mut a) => {
                            let _ = catch_unwind(AssertUnwindSafe(|| a.authorize().is_ok()));
                            a.to_raw_snapshot().unwrap_or_default()
                        }
                        Err(_) => return,
                    },
                    Err(_) => return,
                };
                let mut snap = match schema::AuthorizerSnapshot::decode(&base[..]) {
                    Ok(s) => s,
                    Err(_) => return,
                };
                match m {
                    SnapMut::DropSymbols => snap.world.symbols.clear(),
                    SnapMut::DropKeys => snap.world.public_keys.clear(),
                    SnapMut::VersionNone => snap.world.version = None,
                    SnapMut::Version { v } => snap.world.version = Some(*v),
                    SnapMut::OriginEmpty => {
                        for g in snap.world.generated_facts.iter_mut() {
                            g.origins = vec![schema::Origin { content: None }];
                        }
                    }
                    SnapMut::OriginHuge => {
                        for g in snap.world.generated_facts.iter_mut() {
                            g.origins = vec![schema::Origin { content: Some(schema::origin::Content::Origin(u32::MAX)) }];
                        }
                    }
                    SnapMut::IterationsMax => snap.world.iterations = u64::MAX,
                    SnapMut::LimitsZero => snap.limits = schema::RunLimits { max_facts: 0, max_iterations: 0, max_time: 0 },
                    SnapMut::LimitsMax => snap.limits = schema::RunLimits { max_facts: u64::MAX, max_iterations: u64::MAX, max_time: u64::MAX },
                    SnapMut::ExecTimeMax => snap.execution_time = u64::MAX,
                    SnapMut::PolicyKind => {
                        snap.world.authorizer_policies.push(schema::Policy { queries: vec![], kind: 7 });
                    }
                    SnapMut::BlockFactOob => {
                        snap.world.generated_facts.push(schema::GeneratedFacts {
                            origins: vec![schema::Origin { content: Some(schema::origin::Content::Origin(0)) }],
                            facts: vec![fact(pred(999_999, vec![term_str(888_888), term_var(77)]))],
                        });
                    }
                    SnapMut::AuthorizerBlock(bm) | SnapMut::TokenBlock(bm) => {
                        let mut b = schema::Block::default();
                        if mutate_block(&mut b, bm, &[]).is_some() {
                            return;
                        }
                        let sb = schema::SnapshotBlock {
                            context: b.context,
                            version: b.version,
                            facts_v2: b.facts_v2,
                            rules_v2: b.rules_v2,
                            checks_v2: b.checks_v2,
                            scope: b.scope,
                            external_key: None,
                        };
                        if matches!(m, SnapMut::AuthorizerBlock(_)) {
                            snap.world.authorizer_block = sb;
                        } else {
                            snap.world.blocks.push(sb);
                        }
                    }
                    SnapMut::ExternalKeyBad => {
                        for b in snap.world.blocks.iter_mut() {
                            b.external_key = Some(schema::PublicKey { algorithm: 1, key: vec![3; 33] });
                        }
                    }
                    SnapMut::PolicyNoQueries => {
                        snap.world.authorizer_policies.insert(0, schema::Policy { queries: vec![], kind: 0 });
                        snap.world.authorizer_policies.push(schema::Policy { queries: vec![], kind: 1 });
                    }
                    SnapMut::PolicyHeadUnbound => {
                        snap.world.authorizer_block.facts_v2.push(fact(pred(2, vec![term_int(1)])));
                        snap.world.authorizer_policies.insert(0, schema::Policy { queries: vec![head_unbound_query()], kind: 0 });
                        // the snapshot may be of an evaluated authorizer: the fact is known there too
                        snap.world.generated_facts.push(schema::GeneratedFacts {
                            origins: vec![schema::Origin { content: Some(schema::origin::Content::Authorizer(schema::Empty {})) }],
                            facts: vec![fact(pred(2, vec![term_int(1)]))],
                        });
                    }
                }
                let mut bytes = Vec::new();
                let _ = snap.encode(&mut bytes);
                self.deliver_snapshot(cx, &bytes);
            }
            Attack::PoliciesBytes { m } => {
                cx.stats.bump("fault.policies_bytes");
                let spec = &run.scn.verifiers[0];
                libeval::install(run.scn.hash_key);
                let base = libeval::build_authorizer(None, &spec.authorizer, SMALL)
                    .ok()
                    .and_then(|a| a.save().ok())
                    .and_then(|p| p.serialize().ok())
                    .unwrap_or_default();
                let bytes = apply_bytes(m, &base);
                if let Some(Ok(mut a)) = cx.guard("Authorizer::from(policies)", || Authorizer::from(&bytes)) {
                    sweep_authorizer(cx, &mut a, 0);
                }
                // structured: the same adversarial items as in blocks, inside a policies message
                if let Ok(mut p) = schema::AuthorizerPolicies::decode(&base[..]) {
                    let seed = match m {
                        ByteMut::Flip { o, bit } => o * 8 + bit,
                        ByteMut::Trunc { n } | ByteMut::Ext { n } => *n,
                        ByteMut::Zero { o, len } => o + len,
                        ByteMut::Insert { o, n, .. } => o + n,
                        ByteMut::Dup => 1,
                        ByteMut::Empty => 2,
                    };
                    let mut rng = Rng::derive(seed as u64, "policies-structured", 0);
                    match rng.below(4) {
                        0 => p.policies.insert(0, schema::Policy { queries: vec![], kind: 0 }),
                        1 => {
                            p.facts.push(fact(pred(2, vec![term_int(1)])));
                            p.policies.insert(0, schema::Policy { queries: vec![head_unbound_query()], kind: 0 });
                        }
                        _ => {
                            let mut b = schema::Block::default();
                            let bm = gen_blockmut(&mut rng);
                            if mutate_block(&mut b, &bm, &[]).is_none() {
                                p.version = b.version;
                                p.facts.extend(b.facts_v2);
                                p.rules.extend(b.rules_v2);
                                p.checks.extend(b.checks_v2);
                            }
                        }
                    }
                    let mut bytes = Vec::new();
                    let _ = p.encode(&mut bytes);
                    cx.stats.bump("fault.policies_structured");
                    if let Some(Ok(mut a)) = cx.guard("Authorizer::from(policies)", || Authorizer::from(&bytes)) {
                        cx.stats.bump("c09.policies_accepted");
                        sweep_authorizer(cx, &mut a, 0);
                    }
                }
            }
            Attack::KeyMaterial { form, alg, m } => {
                cx.stats.bump("fault.key_material");
                let kp = KeySpec { alg: *alg, seed: 7 }.keypair();
                let lib_alg = match alg {
                    Alg::Ed25519 => biscuit_auth::builder::Algorithm::Ed25519,
                    Alg::P256 => biscuit_auth::builder::Algorithm::Secp256r1,
                };
                let mutate_text = |s: String| String::from_utf8_lossy(&apply_bytes(m, s.as_bytes())).to_string();
                match form % 8 {
                    0 => {
                        let s = mutate_text(kp.public().to_string());
                        cx.guard("PublicKey::from_str", || PublicKey::from_str(&s).is_ok());
                    }
                    1 => {
                        let s = mutate_text(kp.private().to_prefixed_string());
                        cx.guard("PrivateKey::from_str", || PrivateKey::from_str(&s).is_ok());
                    }
                    2 => {
                        let s = mutate_text(kp.public().to_bytes_hex());
                        cx.guard("PublicKey::from_bytes_hex", || PublicKey::from_bytes_hex(&s, lib_alg).is_ok());
                        cx.guard("PrivateKey::from_bytes_hex", || PrivateKey::from_bytes_hex(&s, lib_alg).is_ok());
                    }
                    3 => {
                        let b = apply_bytes(m, &kp.public().to_bytes());
                        for a in [biscuit_auth::builder::Algorithm::Ed25519, biscuit_auth::builder::Algorithm::Secp256r1] {
                            cx.guard("PublicKey::from_bytes", || PublicKey::from_bytes(&b, a).is_ok());
                            cx.guard("PrivateKey::from_bytes", || PrivateKey::from_bytes(&b, a).is_ok());
                        }
                        cx.guard("PublicKey::from_proto", || PublicKey::from_proto(&schema::PublicKey { algorithm: (b.len() % 4) as i32, key: b.clone() }).is_ok());
                    }
                    4 => {
                        if let Ok(pem) = kp.public().to_pem() {
                            let s = mutate_text(pem);
                            cx.guard("PublicKey::from_pem", || PublicKey::from_pem(&s).is_ok());
                        }
                    }
                    5 => {
                        if let Ok(der) = kp.public().to_der() {
                            let b = apply_bytes(m, &der);
                            cx.guard("PublicKey::from_der", || PublicKey::from_der(&b).is_ok());
                        }
                    }
                    6 => {
                        if let Ok(pem) = kp.to_private_key_pem() {
                            let s = mutate_text(pem.to_string());
                            cx.guard("KeyPair::from_private_key_pem", || KeyPair::from_private_key_pem(&s).is_ok());
                            cx.guard("PrivateKey::from_pem", || PrivateKey::from_pem(&s).is_ok());
                        }
                    }
                    _ => {
                        if let Ok(der) = kp.to_private_key_der() {
                            let b = apply_bytes(m, &der);
                            cx.guard("KeyPair::from_private_key_der", || KeyPair::from_private_key_der(&b).is_ok());
                            cx.guard("PrivateKey::from_der", || PrivateKey::from_der(&b).is_ok());
                        }
                    }
                }
            }
            Attack::Source { entry, kind, n, m } => {
                cx.stats.bump("fault.datalog_source");
                let base = match kind % 8 {
                    // a `trusting <algorithm>/<hex>` clause whose key has the right size but is
                    // not a point of the curve (n selects the algorithm and the candidate)
                    7 => {
                        let (alg_name, alg, len) = if n % 2 == 0 {
                            ("ed25519", biscuit_auth::builder::Algorithm::Ed25519, 32usize)
                        } else {
                            ("secp256r1", biscuit_auth::builder::Algorithm::Secp256r1, 33usize)
                        };
                        let mut bad: Option<Vec<u8>> = None;
                        for c in 0..=255u8 {
                            let mut k = vec![c.wrapping_mul(37).wrapping_add(*n as u8); len];
                            k[0] = if len == 33 { 2 } else { c };
                            if PublicKey::from_bytes(&k, alg).is_err() {
                                bad = Some(k);
                                break;
                            }
                        }
                        let key = format!("{alg_name}/{}", hex::encode(bad.unwrap_or_else(|| vec![0xff; len])));
                        match entry % 6 {
                            0 => format!("v(1); check if v($x) trusting {key};"),
                            1 => format!("v(1); allow if v($x) trusting {key};"),
                            2 => format!("f(1) trusting {key}"),
                            3 => format!("a($x) <- b($x) trusting {key}"),
                            4 => format!("check if b($x) trusting {key}"),
                            _ => format!("allow if b($x) trusting {key}"),
                        }
                    }
                    0 => run.slots[0].ghost[0].ast.source(),
                    1 => run.scn.verifiers[0].authorizer.source(),
                    2 => format!("check if {}1{};", "(".repeat(*n), ")".repeat(*n)),
                    3 => format!("check if {}true;", "!".repeat(*n)),
                    4 => format!("check if 1{} == 1;", " + 1".repeat(*n)),
                    5 => format!("f({}1{});", "[".repeat(*n), "]".repeat(*n)),
                    // `{parameter}` placeholders in every position the grammar allows, for the
                    // item kind the entry point expects (n selects the text)
                    _ => {
                        let texts: &[&str] = match entry % 6 {
                            0 => &[
                                "v(1); r($x) <- v($x), [1, {p}].contains($x); check if v({q});",
                                "f({p});",
                                "r({p}) <- v($x); v(1);",
                                "v(1); check if v($x) trusting {k};",
                                "v(1); check if v($x), $x == {p};",
                                "f([{p}]); g({\"a\": {p}}); h({{p}: 1});",
                            ],
                            1 => &[
                                "v(1); r($x) <- v($x), [1, {p}].contains($x); allow if true;",
                                "v(1); allow if v($x), $x == {p};",
                                "deny if {p}; allow if true;",
                                "v(1); r([{p}]) <- v($x); allow if r($y);",
                                "v(1); allow if v($x) trusting {k};",
                                "v([2]); r($x) <- v($x), $x == [{p}]; allow if r($y);",
                            ],
                            2 => &["f({p})", "f([{p}])", "f({\"a\": {p}})", "f({{p}: 1})", "f({p}, {p})"],
                            3 => &["a($x) <- b($x), $x == {p}", "a([{p}]) <- b($x)", "a($x) <- b($x, [{p}])", "a($x) <- b($x) trusting {k}", "a({p}) <- b({p})"],
                            4 => &["check if b($x), $x == {p}", "check if b({p})", "check if [1, {p}].contains(1)", "check all b($x), {p}", "reject if b($x) trusting {k}"],
                            _ => &["allow if b($x), $x == {p}", "deny if {p}", "allow if b([{p}])", "allow if true trusting {k}"],
                        };
                        texts[*n % texts.len()].to_string()
                    }
                };
                let text = String::from_utf8_lossy(&apply_bytes(m, base.as_bytes())).to_string();
                let text = if kind % 8 >= 2 && matches!(m, ByteMut::Empty) { base } else { text };
                let kp = KeySpec { alg: Alg::Ed25519, seed: 77 }.keypair();
                let next = KeySpec { alg: Alg::Ed25519, seed: 78 }.keypair();
                // parameters given a value (every name the texts above use) or left unset
                let mut params: std::collections::HashMap<String, biscuit_auth::builder::Term> = std::collections::HashMap::new();
                let mut scope_params: std::collections::HashMap<String, PublicKey> = std::collections::HashMap::new();
                // for the parameter texts, n also selects how the parameters are given values:
                // not at all, an integer, a boolean
                let mode = (n / 6) % 3;
                let bound = kind % 8 == 6 && mode > 0;
                if bound {
                    // an integer fits everywhere; a boolean cannot be a map key
                    let value = if mode == 2 { biscuit_auth::builder::Term::Bool(true) } else { biscuit_auth::builder::Term::Integer(2) };
                    params.insert("p".to_string(), value);
                    params.insert("q".to_string(), biscuit_auth::builder::Term::Integer(1));
                    scope_params.insert("k".to_string(), kp.public());
                }
                // whatever the entry point returns, every operation on it answers too
                let use_block = |cx: &mut Ctx, bb: BlockBuilder| {
                    cx.guard("BlockBuilder::to_string (from source)", || bb.to_string().len());
                    let built = cx.guard("BiscuitBuilder::build (from source)", || {
                        biscuit_auth::builder::BiscuitBuilder::new().merge(bb.clone()).build_with_key_pair(&kp, biscuit_auth::datalog::SymbolTable::new(), &next)
                    });
                    if let Some(Ok(b)) = built {
                        sweep_biscuit(cx, &b);
                        cx.guard("Biscuit::append (from source)", || b.append_with_keypair(&next, bb.clone()).map(|t| t.print().len()).is_ok());
                    }
                };
                match entry % 6 {
                    0 => {
                        let r = cx.guard(if bound { "BlockBuilder::code_with_params" } else { "BlockBuilder::code" }, || {
                            if bound {
                                BlockBuilder::new().code_with_params(&text, params.clone(), scope_params.clone())
                            } else {
                                BlockBuilder::new().code(&text)
                            }
                        });
                        if let Some(Ok(bb)) = r {
                            use_block(cx, bb);
                        }
                    }
                    1 => {
                        let r = cx.guard(if bound { "AuthorizerBuilder::code_with_params" } else { "AuthorizerBuilder::code" }, || {
                            if bound {
                                AuthorizerBuilder::new().code_with_params(&text, params.clone(), scope_params.clone())
                            } else {
                                AuthorizerBuilder::new().code(&text)
                            }
                        });
                        if let Some(Ok(ab)) = r {
                            let ab = ab.limits(SMALL.to_lib());
                            cx.guard("AuthorizerBuilder::dump_code (from source)", || ab.dump_code().len());
                            cx.guard("AuthorizerBuilder::to_raw_snapshot (from source)", || ab.to_raw_snapshot().is_ok());
                            install_clock();
                            if let Some(Ok(mut a)) = cx.guard("AuthorizerBuilder::build_unauthenticated (from source)", || ab.clone().build_unauthenticated()) {
                                sweep_authorizer(cx, &mut a, 0);
                            }
                        }
                    }
                    2 => {
                        if let Some(Ok(f)) = cx.guard("builder::Fact::try_from", || biscuit_auth::builder::Fact::try_from(text.as_str())) {
                            cx.guard("builder::Fact::to_string", || f.to_string().len());
                            if let Some(Ok(bb)) = cx.guard("BlockBuilder::fact (from source)", || BlockBuilder::new().fact(f.clone())) {
                                use_block(cx, bb);
                            }
                        }
                    }
                    3 => {
                        if let Some(Ok(r)) = cx.guard("builder::Rule::try_from", || biscuit_auth::builder::Rule::try_from(text.as_str())) {
                            cx.guard("builder::Rule::to_string", || r.to_string().len());
                            if let Some(Ok(bb)) = cx.guard("BlockBuilder::rule (from source)", || BlockBuilder::new().rule(r.clone())) {
                                use_block(cx, bb);
                            }
                        }
                    }
                    4 => {
                        if let Some(Ok(c)) = cx.guard("builder::Check::try_from", || biscuit_auth::builder::Check::try_from(text.as_str())) {
                            cx.guard("builder::Check::to_string", || c.to_string().len());
                            if let Some(Ok(bb)) = cx.guard("BlockBuilder::check (from source)", || BlockBuilder::new().check(c.clone())) {
                                use_block(cx, bb);
                            }
                        }
                    }
                    _ => {
                        if let Some(Ok(p)) = cx.guard("builder::Policy::try_from", || biscuit_auth::builder::Policy::try_from(text.as_str())) {
                            cx.guard("builder::Policy::to_string", || p.to_string().len());
                            if let Some(Ok(ab)) = cx.guard("AuthorizerBuilder::policy (from source)", || AuthorizerBuilder::new().policy(p.clone())) {
                                install_clock();
                                if let Some(Ok(mut a)) = cx.guard("AuthorizerBuilder::build_unauthenticated (from source)", || ab.limits(SMALL.to_lib()).build_unauthenticated()) {
                                    sweep_authorizer(cx, &mut a, 0);
                                }
                            }
                        }
                    }
                }
            }
        }
    }

    fn deliver_snapshot(&self, cx: &mut Ctx, bytes: &[u8]) {
        if let Some(Ok(mut a)) = cx.guard("Authorizer::from_raw_snapshot", || Authorizer::from_raw_snapshot(bytes)) {
            cx.stats.bump("c09.snapshot_accepted");
            sweep_authorizer(cx, &mut a, 0);
        }
        cx.guard("Authorizer::from_base64_snapshot", || {
            Authorizer::from_base64_snapshot(&base64::encode_config(bytes, base64::URL_SAFE)).is_ok()
        });
        cx.guard("Authorizer::from_base64_snapshot(raw)", || Authorizer::from_base64_snapshot(&String::from_utf8_lossy(bytes)).is_ok());
        if let Some(Ok(ab)) = cx.guard("AuthorizerBuilder::from_raw_snapshot", || AuthorizerBuilder::from_raw_snapshot(bytes)) {
            cx.guard("AuthorizerBuilder::dump_code", || ab.dump_code().len());
            if let Some(Ok(mut a)) = cx.guard("AuthorizerBuilder::build_unauthenticated", || ab.build_unauthenticated()) {
                sweep_authorizer(cx, &mut a, 0);
            }
        }
        cx.guard("AuthorizerBuilder::from_base64_snapshot", || {
            AuthorizerBuilder::from_base64_snapshot(&base64::encode_config(bytes, base64::URL_SAFE)).is_ok()
        });
    }
}

fn gen_snapmut(rng: &mut Rng) -> SnapMut {
    match rng.below(17) {
        0 => SnapMut::DropSymbols,
        1 => SnapMut::DropKeys,
        2 => SnapMut::VersionNone,
        3 => SnapMut::Version { v: *rng.pick(&[0u32, 2, 7, u32::MAX]) },
        4 => SnapMut::OriginEmpty,
        5 => SnapMut::OriginHuge,
        6 => SnapMut::IterationsMax,
        7 => SnapMut::LimitsZero,
        8 => SnapMut::LimitsMax,
        9 => SnapMut::ExecTimeMax,
        10 => SnapMut::PolicyKind,
        11 => SnapMut::BlockFactOob,
        12 => SnapMut::AuthorizerBlock(gen_blockmut(rng)),
        13 => SnapMut::TokenBlock(gen_blockmut(rng)),
        14 => SnapMut::ExternalKeyBad,
        15 => SnapMut::PolicyNoQueries,
        _ => SnapMut::PolicyHeadUnbound,
    }
}

impl Engine for C09Engine {
    type Case = C09Case;
    fn name(&self) -> &'static str {
        "untrusted"
    }
    fn property(&self) -> &str {
        "C09"
    }
    fn isolate(&self) -> bool {
        true
    }
    fn split(&self, case: &C09Case) -> Vec<C09Case> {
        case.attacks
            .iter()
            .map(|a| C09Case { scenario: case.scenario.clone(), attacks: vec![a.clone()] })
            .collect()
    }
    fn describe(&self, case: &C09Case) -> String {
        let one = |a: &Attack| -> String {
            match a {
                Attack::Source { entry, kind, n, m } => format!(
                    "Source(entry={},shape={},n={},mutation={})",
                    ["BlockBuilder::code", "AuthorizerBuilder::code", "Fact::try_from", "Rule::try_from", "Check::try_from", "Policy::try_from"][(*entry % 6) as usize],
                    ["block-source", "authorizer-source", "nested-parentheses", "negation-chain", "addition-chain", "nested-arrays", "parameters", "key-off-curve"][(*kind % 8) as usize],
                    n,
                    if matches!(m, ByteMut::Empty) && kind % 8 >= 2 { "none".to_string() } else { format!("{m:?}") }
                ),
                other => {
                    let s = format!("{other:?}");
                    s.chars().take(120).collect()
                }
            }
        };
        format!("attacks=[{}]", case.attacks.iter().map(one).collect::<Vec<_>>().join(", "))
    }
    fn generate(&self, run_seed: u64) -> C09Case {
        let mut profile = Profile::default_for("C07");
        profile.max_events = 8;
        profile.errors = true;
        let scenario = world::generate(run_seed, &profile);
        let mut rng = Rng::derive(run_seed, "attacks", 0);
        let n = rng.range(3, 6);
        let mut attacks = Vec::new();
        for _ in 0..n {
            let target = rng.below(16);
            let a = match rng.weighted(&[12, 10, 22, 6, 10, 4, 6, 5, 8, 3, 5, 6, 3]) {
                0 => Attack::TokenBytes { target, m: gen_bytemut(&mut rng) },
                1 => {
                    let ops = faults::table(4, Some(3), 400, rng.next(), 4);
                    Attack::TokenStructured { target, aux: rng.below(16), op: rng.pick(&ops).clone() }
                }
                2 => Attack::ByzantineAppend { target, m: gen_blockmut(&mut rng) },
                3 => Attack::ByzantineAuthority { m: gen_blockmut(&mut rng) },
                4 => Attack::ByzantineThirdParty { target, signer: rng.below(4), m: gen_blockmut(&mut rng) },
                5 => Attack::RequestBytes { target, m: gen_bytemut(&mut rng) },
                6 => Attack::ResponseBytes { target, resp: rng.below(8), m: gen_bytemut(&mut rng) },
                7 => Attack::SnapshotBytes { target, m: gen_bytemut(&mut rng), builder: rng.chance(1, 3) },
                8 => Attack::SnapshotStructured { target, m: gen_snapmut(&mut rng) },
                9 => Attack::PoliciesBytes { m: gen_bytemut(&mut rng) },
                10 => Attack::KeyMaterial { form: rng.below(8) as u8, alg: if rng.chance(1, 2) { Alg::P256 } else { Alg::Ed25519 }, m: gen_bytemut(&mut rng) },
                11 => {
                    let kind = rng.below(8) as u8;
                    Attack::Source {
                        entry: rng.below(6) as u8,
                        kind,
                        n: if kind >= 6 { rng.below(18) } else { *rng.pick(&[1usize, 10, 100, 1000, 20_000]) },
                        m: if rng.chance(1, 2) { ByteMut::Empty } else { gen_bytemut(&mut rng) },
                    }
                }
                _ => Attack::Pristine { target },
            };
            attacks.push(a);
        }
        C09Case { scenario, attacks }
    }

    fn execute(&self, case: &C09Case) -> CaseResult {
        let mut res = CaseResult::default();
        let mut stats = Stats::default();
        let mon = Monitors::default();
        let mut run = Run::new(&case.scenario, &mon);
        // the legitimate history itself must not panic either (it already contains message faults)
        let ok = catch_unwind(AssertUnwindSafe(|| run.execute()));
        if ok.is_err() {
            res.violations.push(Violation {
                property: "C09".to_string(),
                class: "panic".to_string(),
                event: None,
                detail: format!("call=world-history panics at {} ;; attack none (faulted third-party exchange inside the history)", crate::panic_location()),
                focus: None,
            });
            stats.oracle_evals += 1;
            res.stats = stats;
            return res;
        }
        stats.oracle_evals += 1;
        for a in &case.attacks {
            let label = format!("{a:?}");
            stats.trace.push(label.split(|c| c == ' ' || c == '{').next().unwrap_or("").to_string());
            let mut cx = Ctx { out: &mut res.violations, stats: &mut stats, attack: label.chars().take(300).collect() };
            self.attack(&run, a, &mut cx);
        }
        // one violation per (call, location) is enough
        let mut seen = std::collections::BTreeSet::new();
        res.violations.retain(|v| seen.insert(v.detail.split(" ;; ").next().unwrap_or("").to_string()));
        res.stats = stats;
        res
    }

    fn shrink(&self, case: &C09Case) -> Vec<C09Case> {
        let mut out = Vec::new();
        for i in 0..case.attacks.len() {
            if case.attacks.len() > 1 {
                let mut c = case.clone();
                c.attacks = vec![case.attacks[i].clone()];
                out.push(c);
            }
        }
        for s in crate::worldengine::shrink_scenario(&case.scenario, None) {
            let mut c = case.clone();
            c.scenario = s;
            out.push(c);
        }
        out
    }

    fn reach_probes(&self) -> Vec<&'static str> {
        vec![
            "fault.token_bytes",
            "fault.token_structured",
            "fault.byzantine_first_party",
            "fault.byzantine_issuer",
            "fault.byzantine_third_party",
            "fault.request_bytes",
            "fault.response_bytes",
            "fault.snapshot_bytes",
            "fault.snapshot_structured",
            "fault.policies_bytes",
            "fault.key_material",
            "fault.datalog_source",
            "c09.sweep_biscuit",
            "c09.sweep_unverified",
            "c09.authorizer_built",
            "c09.snapshot_accepted",
            "c09.token_accepted",
            "c09.token_rejected",
        ]
    }
    fn level(&self) -> &'static str {
        "fault_enumeration"
    }
    fn rule(&self) -> String {
        "one run = one seeded multi-party history (with third-party message faults) followed by 3..6 attacks drawn from: byte faults and the structured container operators on tokens in flight; validly signed adversarial blocks (51 schema-aware mutations: out-of-range symbol / key / variable ids, empty oneofs, malformed op sequences, closures, unknown enum values, versions, duplicate tables, nesting to depth 3000, garbage payloads) produced by a Byzantine holder, issuer and third-party signer; corrupted third-party requests and responses; byte-level and structured faults on authorizer snapshots and saved policies; corrupted key strings / hex / PEM / DER; corrupted and deeply nested Datalog source. Every resulting object goes through the accessor sweep (indices 0..count+2 and usize::MAX, printing, seal, append, third-party request, authorizer build, run, authorize, queries, dump, snapshot, restore) under small limits and the virtual clock. Runs execute in supervised child processes; non-trivial = at least one guarded library call; distinct = distinct attack-kind sequences".to_string()
    }
    fn assumptions(&self) -> Vec<String> {
        vec![
            "a panic is observed by catch_unwind inside the worker, an abort / stack overflow / signal by the worker's exit status, a hang by a 60 s wall-clock watchdog (a harness guard: evaluation itself runs on the virtual clock)".to_string(),
            "adversarial blocks are signed with keys the adversary legitimately holds (proof secret of a token in flight, a third-party signer's key, the root key for the Byzantine issuer)".to_string(),
        ]
    }
    fn panic_is_violation(&self) -> Option<(&'static str, &'static str)> {
        Some(("C09", "panic"))
    }
}
