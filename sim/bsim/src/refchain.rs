//! R1 — reference chain verifier and signer. Decodes the wire container with prost and checks it
//! the way the Biscuit specification states, calling ed25519-dalek and p256 directly. Does not
//! call biscuit-auth's crypto or format code.
use crate::ast::Alg;
use biscuit_auth::format::schema;
use p256::ecdsa::signature::{Signer as _, Verifier as _};
use prost::Message;

#[derive(Clone, Debug, PartialEq, Eq, PartialOrd, Ord, Hash)]
pub struct RKey {
    pub alg: Alg,
    /// canonical bytes: 32 bytes for ed25519, compressed SEC1 (33 bytes) for P-256
    pub bytes: Vec<u8>,
}

#[derive(Clone, Debug, PartialEq, Eq, PartialOrd, Ord, Hash)]
pub struct RBlockSig {
    pub payload: Vec<u8>,
    pub next_key: RKey,
    pub signature: Vec<u8>,
    pub external: Option<(RKey, Vec<u8>)>,
    pub version: u32,
}

#[derive(Clone, Debug, PartialEq, Eq, PartialOrd, Ord, Hash)]
pub enum RProof {
    Secret(Vec<u8>),
    Seal(Vec<u8>),
}

/// the signed content of a token: what a signature chain commits to
#[derive(Clone, Debug, PartialEq, Eq, PartialOrd, Ord, Hash)]
pub struct Content {
    pub blocks: Vec<RBlockSig>,
    pub proof: RProof,
}

pub fn parse_key(k: &schema::PublicKey) -> Result<RKey, String> {
    match k.algorithm {
        0 => {
            let arr: [u8; 32] = k.key[..]
                .try_into()
                .map_err(|_| "ed25519 key length".to_string())?;
            ed25519_dalek::VerifyingKey::from_bytes(&arr).map_err(|e| e.to_string())?;
            Ok(RKey {
                alg: Alg::Ed25519,
                bytes: k.key.clone(),
            })
        }
        1 => {
            let vk = p256::ecdsa::VerifyingKey::from_sec1_bytes(&k.key).map_err(|e| e.to_string())?;
            Ok(RKey {
                alg: Alg::P256,
                bytes: vk.to_encoded_point(true).as_bytes().to_vec(),
            })
        }
        other => Err(format!("unknown key algorithm {other}")),
    }
}

fn alg_le(alg: Alg) -> [u8; 4] {
    match alg {
        Alg::Ed25519 => 0i32.to_le_bytes(),
        Alg::P256 => 1i32.to_le_bytes(),
    }
}

pub fn verify_sig(key: &RKey, msg: &[u8], sig: &[u8]) -> Result<(), String> {
    match key.alg {
        Alg::Ed25519 => {
            let arr: [u8; 32] = key.bytes[..].try_into().map_err(|_| "key len".to_string())?;
            let vk = ed25519_dalek::VerifyingKey::from_bytes(&arr).map_err(|e| e.to_string())?;
            let s: [u8; 64] = sig.try_into().map_err(|_| "signature length".to_string())?;
            vk.verify_strict(msg, &ed25519_dalek::Signature::from_bytes(&s))
                .map_err(|e| e.to_string())
        }
        Alg::P256 => {
            let vk =
                p256::ecdsa::VerifyingKey::from_sec1_bytes(&key.bytes).map_err(|e| e.to_string())?;
            let s = p256::ecdsa::Signature::from_der(sig).map_err(|e| e.to_string())?;
            vk.verify(msg, &s).map_err(|e| e.to_string())
        }
    }
}

pub fn public_of_secret(alg: Alg, secret: &[u8]) -> Result<RKey, String> {
    match alg {
        Alg::Ed25519 => {
            let arr: [u8; 32] = secret.try_into().map_err(|_| "secret length".to_string())?;
            let sk = ed25519_dalek::SigningKey::from_bytes(&arr);
            Ok(RKey {
                alg,
                bytes: sk.verifying_key().to_bytes().to_vec(),
            })
        }
        Alg::P256 => {
            if secret.len() != 32 {
                return Err("secret length".to_string());
            }
            let sk = p256::ecdsa::SigningKey::from_slice(secret).map_err(|e| e.to_string())?;
            Ok(RKey {
                alg,
                bytes: sk
                    .verifying_key()
                    .to_encoded_point(true)
                    .as_bytes()
                    .to_vec(),
            })
        }
    }
}

pub fn sign(alg: Alg, secret: &[u8], msg: &[u8]) -> Result<Vec<u8>, String> {
    match alg {
        Alg::Ed25519 => {
            let arr: [u8; 32] = secret.try_into().map_err(|_| "secret length".to_string())?;
            let sk = ed25519_dalek::SigningKey::from_bytes(&arr);
            Ok(sk.sign(msg).to_bytes().to_vec())
        }
        Alg::P256 => {
            let sk = p256::ecdsa::SigningKey::from_slice(secret).map_err(|e| e.to_string())?;
            let s: p256::ecdsa::Signature = sk.sign(msg);
            Ok(s.to_der().as_bytes().to_vec())
        }
    }
}

pub fn block_payload(
    version: u32,
    payload: &[u8],
    next: &RKey,
    prev_sig: Option<&[u8]>,
    ext_sig: Option<&[u8]>,
) -> Result<Vec<u8>, String> {
    match version {
        0 => {
            let mut v = payload.to_vec();
            if let Some(e) = ext_sig {
                v.extend_from_slice(e);
            }
            v.extend_from_slice(&alg_le(next.alg));
            v.extend_from_slice(&next.bytes);
            Ok(v)
        }
        1 => {
            let mut v = b"\0BLOCK\0\0VERSION\0".to_vec();
            v.extend_from_slice(&1u32.to_le_bytes());
            v.extend_from_slice(b"\0PAYLOAD\0");
            v.extend_from_slice(payload);
            v.extend_from_slice(b"\0ALGORITHM\0");
            v.extend_from_slice(&alg_le(next.alg));
            v.extend_from_slice(b"\0NEXTKEY\0");
            v.extend_from_slice(&next.bytes);
            if let Some(p) = prev_sig {
                v.extend_from_slice(b"\0PREVSIG\0");
                v.extend_from_slice(p);
            }
            if let Some(e) = ext_sig {
                v.extend_from_slice(b"\0EXTERNALSIG\0");
                v.extend_from_slice(e);
            }
            Ok(v)
        }
        other => Err(format!("unsupported signature version {other}")),
    }
}

pub fn external_payload(payload: &[u8], prev_sig: &[u8]) -> Vec<u8> {
    let mut v = b"\0EXTERNAL\0\0VERSION\0".to_vec();
    v.extend_from_slice(&1u32.to_le_bytes());
    v.extend_from_slice(b"\0PAYLOAD\0");
    v.extend_from_slice(payload);
    v.extend_from_slice(b"\0PREVSIG\0");
    v.extend_from_slice(prev_sig);
    v
}

pub fn seal_payload(last: &RBlockSig) -> Vec<u8> {
    let mut v = last.payload.clone();
    v.extend_from_slice(&alg_le(last.next_key.alg));
    v.extend_from_slice(&last.next_key.bytes);
    v.extend_from_slice(&last.signature);
    v
}

fn parse_block(b: &schema::SignedBlock) -> Result<RBlockSig, String> {
    let external = match &b.external_signature {
        None => None,
        Some(e) => Some((parse_key(&e.public_key)?, e.signature.clone())),
    };
    Ok(RBlockSig {
        payload: b.block.clone(),
        next_key: parse_key(&b.next_key)?,
        signature: b.signature.clone(),
        external,
        version: b.version.unwrap_or(0),
    })
}

/// decodes without verifying; None when it is not a well-formed container
pub fn content_of(bytes: &[u8]) -> Result<(Option<u32>, Content), String> {
    let data = schema::Biscuit::decode(bytes).map_err(|e| e.to_string())?;
    let mut blocks = vec![parse_block(&data.authority)?];
    for b in &data.blocks {
        blocks.push(parse_block(b)?);
    }
    let proof = match data.proof.content {
        None => return Err("no proof".to_string()),
        Some(schema::proof::Content::NextSecret(s)) => RProof::Secret(s),
        Some(schema::proof::Content::FinalSignature(s)) => RProof::Seal(s),
    };
    Ok((data.root_key_id, Content { blocks, proof }))
}

/// full verification under `root`
pub fn verify(bytes: &[u8], root: &RKey) -> Result<Content, String> {
    let (_, content) = content_of(bytes)?;
    verify_content(&content, root)?;
    Ok(content)
}

pub fn verify_content(content: &Content, root: &RKey) -> Result<(), String> {
    verify_content_mode(content, root, false)
}

/// what may be accepted through the parser for the deprecated third-party format followed by
/// the ordinary verification: a third-party block may carry signature version 0, but its
/// external signature is still over the payload *and the previous block's signature* (the
/// current layout, declaring the block's version) - never over the deprecated layout that only
/// names the previous key
pub fn verify_bound_lenient(bytes: &[u8], root: &RKey) -> Result<Content, String> {
    let (_, content) = content_of(bytes)?;
    verify_content_mode(&content, root, true)?;
    Ok(content)
}

fn verify_content_mode(content: &Content, root: &RKey, lenient: bool) -> Result<(), String> {
    let auth = &content.blocks[0];
    if auth.external.is_some() {
        return Err("authority block with external signature".to_string());
    }
    let msg = block_payload(auth.version, &auth.payload, &auth.next_key, None, None)?;
    verify_sig(root, &msg, &auth.signature).map_err(|e| format!("authority: {e}"))?;
    for i in 1..content.blocks.len() {
        let prev = &content.blocks[i - 1];
        let b = &content.blocks[i];
        let ext_sig = b.external.as_ref().map(|(_, s)| &s[..]);
        if b.external.is_some() && b.version != 1 && !lenient {
            return Err(format!("block {i}: third-party block with signature version {}", b.version));
        }
        let msg = block_payload(
            b.version,
            &b.payload,
            &b.next_key,
            Some(&prev.signature),
            ext_sig,
        )?;
        verify_sig(&prev.next_key, &msg, &b.signature).map_err(|e| format!("block {i}: {e}"))?;
        if let Some((k, s)) = &b.external {
            let mut msg = external_payload(&b.payload, &prev.signature);
            if lenient && b.version == 0 {
                // same layout, declaring version 0 (bytes 19..23 hold the version)
                msg[19..23].copy_from_slice(&0u32.to_le_bytes());
            }
            verify_sig(k, &msg, s).map_err(|e| format!("block {i} external: {e}"))?;
        }
    }
    let last = content.blocks.last().unwrap();
    match &content.proof {
        RProof::Secret(s) => {
            let pk = public_of_secret(last.next_key.alg, s)?;
            if pk != last.next_key {
                return Err("proof secret does not match the last next key".to_string());
            }
        }
        RProof::Seal(sig) => {
            verify_sig(&last.next_key, &seal_payload(last), sig).map_err(|e| format!("seal: {e}"))?;
        }
    }
    Ok(())
}

/// reference signer input: one block of the chain
pub struct SignBlock {
    pub payload: Vec<u8>,
    pub next_alg: Alg,
    pub next_secret: Vec<u8>,
    /// (external key algorithm, external secret) for third-party blocks
    pub external: Option<(Alg, Vec<u8>)>,
    pub version: u32,
}

/// builds the wire container from keys and payloads with the specification's layouts
pub fn sign_token(
    root_alg: Alg,
    root_secret: &[u8],
    root_key_id: Option<u32>,
    blocks: &[SignBlock],
    seal: bool,
) -> Result<Vec<u8>, String> {
    let mut signed: Vec<schema::SignedBlock> = Vec::new();
    let mut cur_alg = root_alg;
    let mut cur_secret = root_secret.to_vec();
    let mut prev_sig: Option<Vec<u8>> = None;
    let mut last_rb: Option<RBlockSig> = None;
    for (i, b) in blocks.iter().enumerate() {
        let next = public_of_secret(b.next_alg, &b.next_secret)?;
        let external = match &b.external {
            None => None,
            Some((alg, secret)) => {
                let prev = prev_sig.as_ref().ok_or("third-party authority")?;
                let sig = sign(*alg, secret, &external_payload(&b.payload, prev))?;
                Some((public_of_secret(*alg, secret)?, sig))
            }
        };
        let msg = block_payload(
            b.version,
            &b.payload,
            &next,
            if i == 0 { None } else { prev_sig.as_deref() },
            external.as_ref().map(|(_, s)| &s[..]),
        )?;
        let sig = sign(cur_alg, &cur_secret, &msg)?;
        let to_proto = |k: &RKey| schema::PublicKey {
            algorithm: match k.alg {
                Alg::Ed25519 => 0,
                Alg::P256 => 1,
            },
            key: k.bytes.clone(),
        };
        signed.push(schema::SignedBlock {
            block: b.payload.clone(),
            next_key: to_proto(&next),
            signature: sig.clone(),
            external_signature: external.as_ref().map(|(k, s)| schema::ExternalSignature {
                signature: s.clone(),
                public_key: to_proto(k),
            }),
            version: if b.version > 0 { Some(b.version) } else { None },
        });
        last_rb = Some(RBlockSig {
            payload: b.payload.clone(),
            next_key: next,
            signature: sig.clone(),
            external,
            version: b.version,
        });
        prev_sig = Some(sig);
        cur_alg = b.next_alg;
        cur_secret = b.next_secret.clone();
    }
    let proof = if seal {
        let last = last_rb.as_ref().ok_or("empty token")?;
        schema::proof::Content::FinalSignature(sign(cur_alg, &cur_secret, &seal_payload(last))?)
    } else {
        schema::proof::Content::NextSecret(cur_secret.clone())
    };
    let authority = signed.remove(0);
    let token = schema::Biscuit {
        root_key_id,
        authority,
        blocks: signed,
        proof: schema::Proof {
            content: Some(proof),
        },
    };
    let mut v = Vec::new();
    token.encode(&mut v).map_err(|e| e.to_string())?;
    Ok(v)
}
