//! The network/storage adversary's structured and byte-level fault operators on token messages
//! (DESIGN appendix A). An operator is applied to a copy of a victim message, optionally using
//! a second message seen in flight (`aux`). None of them uses a secret the adversary cannot know:
//! the proof secret of a token in flight is known (it is in the message), signing keys of
//! issuers, earlier holders and third-party signers are not.
use crate::ast::Alg;
use crate::keys::KeySpec;
use crate::refchain;
use biscuit_auth::format::schema;
use prost::Message;
use serde::{Deserialize, Serialize};

#[derive(Clone, Debug, PartialEq, Eq, Serialize, Deserialize)]
pub enum FaultOp {
    PayloadFlip { i: usize, bit: usize },
    PayloadFrom { i: usize, j: usize },
    PayloadFromAux { i: usize, j: usize },
    BlockSwap { i: usize, j: usize },
    BlockDrop { k: usize },
    BlockDropProofAux { k: usize },
    BlockDup { i: usize },
    BlockInsertAux { i: usize, j: usize },
    BlockAppendAux { j: usize },
    AuthorityFromAux,
    NextKeyRand { i: usize, seed: u64 },
    NextKeyFrom { i: usize, j: usize },
    NextKeyAlg { i: usize },
    /// the algorithm tag of the next key (or of the external key) set to a value outside the
    /// enumeration
    KeyAlgTag { i: usize, v: i32, ext: bool },
    NextKeyReenc { i: usize },
    SigFlip { i: usize, bit: usize },
    SigTrunc { i: usize },
    SigExt { i: usize },
    SigSwap { i: usize, j: usize },
    SigZero { i: usize },
    SigTwin { i: usize },
    SigDer { i: usize, variant: u8 },
    VerSet { i: usize, v: Option<u32> },
    ExtDel { i: usize },
    ExtAddAux { i: usize, j: usize },
    ExtKeyRand { i: usize, seed: u64 },
    ExtSigFlip { i: usize, bit: usize },
    ExtMove { i: usize, j: usize },
    ExtTwin { i: usize },
    ProofFlip { bit: usize },
    ProofFromAux,
    ProofKind,
    ProofNone,
    ProofRandSecret { seed: u64 },
    /// the proof secret in another shape that names the same key: 0 followed by the public key
    /// (the 64-byte keypair form), 1 with a leading zero byte, 2 with a trailing zero byte
    ProofReshape { how: u8 },
    /// the adversary seals the token itself with the proof secret it sees, then edits
    SealTwin,
    /// append a block signed with the visible proof secret onto a sealed token's blocks
    AppendWithRandKey { seed: u64 },
    /// the holder (who sees the proof secret) and a signer of its own append a third-party block
    /// that is chained correctly but whose signatures use another layout than the one the
    /// specification fixes: block signature version 0 or 1, external signature over the
    /// deprecated payload (payload + previous *key*) or over the current one with version 0 / 1
    TpForge { block_version: u32, ext_layout: u8 },
    KidSet { v: Option<u32> },
    EncUnknownField,
    EncDupRootKeyId,
    ByteFlip { o: usize, bit: usize },
    ByteTrunc { n: usize },
    ByteExt { n: usize },
    ByteZero { o: usize, len: usize },
}

impl FaultOp {
    pub fn kind(&self) -> &'static str {
        match self {
            FaultOp::PayloadFlip { .. } => "pl.flip",
            FaultOp::PayloadFrom { .. } => "pl.from",
            FaultOp::PayloadFromAux { .. } => "pl.from_aux",
            FaultOp::BlockSwap { .. } => "blk.swap",
            FaultOp::BlockDrop { .. } => "blk.drop",
            FaultOp::BlockDropProofAux { .. } => "blk.drop+proof",
            FaultOp::BlockDup { .. } => "blk.dup",
            FaultOp::BlockInsertAux { .. } => "blk.insert_aux",
            FaultOp::BlockAppendAux { .. } => "blk.append_aux",
            FaultOp::AuthorityFromAux => "auth.from_aux",
            FaultOp::NextKeyRand { .. } => "nk.rand",
            FaultOp::NextKeyFrom { .. } => "nk.from",
            FaultOp::NextKeyAlg { .. } => "nk.alg",
            FaultOp::KeyAlgTag { .. } => "nk.algtag",
            FaultOp::NextKeyReenc { .. } => "nk.reenc",
            FaultOp::SigFlip { .. } => "sig.flip",
            FaultOp::SigTrunc { .. } => "sig.trunc",
            FaultOp::SigExt { .. } => "sig.ext",
            FaultOp::SigSwap { .. } => "sig.swap",
            FaultOp::SigZero { .. } => "sig.zero",
            FaultOp::SigTwin { .. } => "sig.twin",
            FaultOp::SigDer { .. } => "sig.der",
            FaultOp::VerSet { .. } => "ver.set",
            FaultOp::ExtDel { .. } => "ext.del",
            FaultOp::ExtAddAux { .. } => "ext.add_aux",
            FaultOp::ExtKeyRand { .. } => "ext.key",
            FaultOp::ExtSigFlip { .. } => "ext.sig",
            FaultOp::ExtMove { .. } => "ext.move",
            FaultOp::ExtTwin { .. } => "ext.twin",
            FaultOp::ProofFlip { .. } => "proof.flip",
            FaultOp::ProofFromAux => "proof.from_aux",
            FaultOp::ProofKind => "proof.kind",
            FaultOp::ProofNone => "proof.none",
            FaultOp::ProofRandSecret { .. } => "proof.rand",
            FaultOp::ProofReshape { .. } => "proof.reshape",
            FaultOp::SealTwin => "seal.twin",
            FaultOp::AppendWithRandKey { .. } => "blk.append_forged",
            FaultOp::TpForge { .. } => "tp.layout_forged",
            FaultOp::KidSet { .. } => "kid.set",
            FaultOp::EncUnknownField => "enc.unknown",
            FaultOp::EncDupRootKeyId => "enc.dupfield",
            FaultOp::ByteFlip { .. } => "byte.flip",
            FaultOp::ByteTrunc { .. } => "byte.trunc",
            FaultOp::ByteExt { .. } => "byte.ext",
            FaultOp::ByteZero { .. } => "byte.zero",
        }
    }

    /// operators on third-party blocks: delete / add / move / re-attribute / alter the external
    /// signature, forge a third-party block onto the token (C07)
    pub fn third_party_level(&self) -> bool {
        matches!(
            self,
            FaultOp::ExtDel { .. }
                | FaultOp::ExtAddAux { .. }
                | FaultOp::ExtKeyRand { .. }
                | FaultOp::ExtSigFlip { .. }
                | FaultOp::ExtMove { .. }
                | FaultOp::ExtTwin { .. }
                | FaultOp::TpForge { .. }
        )
    }

    /// operators that only touch signature bytes (C15's non-malleability clause)
    pub fn signature_level(&self) -> bool {
        matches!(
            self,
            FaultOp::SigFlip { .. }
                | FaultOp::SigTrunc { .. }
                | FaultOp::SigExt { .. }
                | FaultOp::SigTwin { .. }
                | FaultOp::SigDer { .. }
                | FaultOp::SigZero { .. }
                | FaultOp::ExtTwin { .. }
                | FaultOp::ExtSigFlip { .. }
                | FaultOp::SealTwin
                | FaultOp::NextKeyReenc { .. }
                | FaultOp::EncUnknownField
                | FaultOp::EncDupRootKeyId
        )
    }
}

fn blocks_mut(t: &mut schema::Biscuit) -> Vec<&mut schema::SignedBlock> {
    let mut v = vec![&mut t.authority];
    for b in t.blocks.iter_mut() {
        v.push(b);
    }
    v
}

fn get_block(t: &schema::Biscuit, i: usize) -> Option<&schema::SignedBlock> {
    if i == 0 {
        Some(&t.authority)
    } else {
        t.blocks.get(i - 1)
    }
}

fn set_block(t: &mut schema::Biscuit, i: usize, b: schema::SignedBlock) {
    if i == 0 {
        t.authority = b;
    } else if i - 1 < t.blocks.len() {
        t.blocks[i - 1] = b;
    }
}

fn flip(v: &mut Vec<u8>, bit: usize) -> bool {
    if v.is_empty() {
        return false;
    }
    let i = (bit / 8) % v.len();
    v[i] ^= 1 << (bit % 8);
    true
}

/// ECDSA twin (r, n - s) of a DER signature
pub fn ecdsa_twin(sig: &[u8]) -> Option<Vec<u8>> {
    let s = p256::ecdsa::Signature::from_der(sig).ok()?;
    let (r, sc) = s.split_scalars();
    let neg = -*sc;
    let twin = p256::ecdsa::Signature::from_scalars(*r, neg).ok()?;
    Some(twin.to_der().as_bytes().to_vec())
}

fn der_variant(sig: &[u8], variant: u8) -> Option<Vec<u8>> {
    // DER: 30 len 02 lr r 02 ls s
    if sig.len() < 8 || sig[0] != 0x30 {
        return None;
    }
    let mut v = sig.to_vec();
    match variant {
        0 => {
            // long-form length
            let len = v[1];
            v.splice(1..2, [0x81, len]);
            Some(v)
        }
        1 => {
            // leading zero on r
            let lr = v[3] as usize;
            v[3] = (lr + 1) as u8;
            v.insert(4, 0);
            v[1] = v[1].wrapping_add(1);
            Some(v)
        }
        2 => {
            // trailing byte inside the sequence
            v.push(0);
            v[1] = v[1].wrapping_add(1);
            Some(v)
        }
        3 => {
            // trailing garbage after the sequence
            v.push(0);
            Some(v)
        }
        _ => {
            // the same (r, s) in the fixed-size encoding r || s (what WebCrypto emits)
            let lr = *sig.get(3)? as usize;
            let r = sig.get(4..4 + lr)?;
            let ls = *sig.get(4 + lr + 1)? as usize;
            let s_ = sig.get(4 + lr + 2..4 + lr + 2 + ls)?;
            let fixed = |x: &[u8]| -> Option<Vec<u8>> {
                let x: Vec<u8> = x.iter().copied().skip_while(|b| *b == 0).collect();
                if x.len() > 32 {
                    return None;
                }
                let mut out = vec![0u8; 32 - x.len()];
                out.extend_from_slice(&x);
                Some(out)
            };
            let mut out = fixed(r)?;
            out.extend(fixed(s_)?);
            Some(out)
        }
    }
}

fn proof_secret(t: &schema::Biscuit) -> Option<Vec<u8>> {
    match &t.proof.content {
        Some(schema::proof::Content::NextSecret(s)) => Some(s.clone()),
        _ => None,
    }
}

fn last_alg(t: &schema::Biscuit) -> Alg {
    let last = t.blocks.last().unwrap_or(&t.authority);
    if last.next_key.algorithm == 1 {
        Alg::P256
    } else {
        Alg::Ed25519
    }
}

fn encode(t: &schema::Biscuit) -> Vec<u8> {
    let mut v = Vec::new();
    let _ = t.encode(&mut v);
    v
}

/// returns None when the operator does not apply to this victim
pub fn apply(op: &FaultOp, victim: &[u8], aux: Option<&[u8]>) -> Option<Vec<u8>> {
    // byte-level operators do not need a decodable message
    match op {
        FaultOp::ByteFlip { o, bit } => {
            let mut v = victim.to_vec();
            if v.is_empty() {
                return None;
            }
            let i = o % v.len();
            v[i] ^= 1 << (bit % 8);
            return Some(v);
        }
        FaultOp::ByteTrunc { n } => {
            if *n == 0 || *n >= victim.len() {
                return None;
            }
            return Some(victim[..victim.len() - n].to_vec());
        }
        FaultOp::ByteExt { n } => {
            let mut v = victim.to_vec();
            v.extend(std::iter::repeat(0x2a).take(*n));
            return Some(v);
        }
        FaultOp::ByteZero { o, len } => {
            let mut v = victim.to_vec();
            if v.is_empty() {
                return None;
            }
            let start = o % v.len();
            let end = (start + len).min(v.len());
            for b in &mut v[start..end] {
                *b = 0;
            }
            return Some(v);
        }
        FaultOp::EncUnknownField => {
            // field 15, varint 1: unknown to the schema
            let mut v = victim.to_vec();
            v.extend_from_slice(&[0x78, 0x01]);
            return Some(v);
        }
        _ => {}
    }
    let mut t = schema::Biscuit::decode(victim).ok()?;
    let a = match aux {
        Some(a) => schema::Biscuit::decode(a).ok(),
        None => None,
    };
    let n = 1 + t.blocks.len();
    match op {
        FaultOp::PayloadFlip { i, bit } => {
            let mut bs = blocks_mut(&mut t);
            let b = bs.get_mut(*i)?;
            if !flip(&mut b.block, *bit) {
                return None;
            }
        }
        FaultOp::PayloadFrom { i, j } => {
            let src = get_block(&t, *j)?.block.clone();
            let mut bs = blocks_mut(&mut t);
            bs.get_mut(*i)?.block = src;
        }
        FaultOp::PayloadFromAux { i, j } => {
            let src = get_block(a.as_ref()?, *j)?.block.clone();
            let mut bs = blocks_mut(&mut t);
            bs.get_mut(*i)?.block = src;
        }
        FaultOp::BlockSwap { i, j } => {
            if *i >= n || *j >= n || i == j {
                return None;
            }
            let bi = get_block(&t, *i)?.clone();
            let bj = get_block(&t, *j)?.clone();
            set_block(&mut t, *i, bj);
            set_block(&mut t, *j, bi);
        }
        FaultOp::BlockDrop { k } => {
            if *k == 0 || *k > t.blocks.len() {
                return None;
            }
            let keep = t.blocks.len() - k;
            t.blocks.truncate(keep);
        }
        FaultOp::BlockDropProofAux { k } => {
            if *k == 0 || *k > t.blocks.len() {
                return None;
            }
            let keep = t.blocks.len() - k;
            t.blocks.truncate(keep);
            t.proof = a?.proof;
        }
        FaultOp::BlockDup { i } => {
            let b = get_block(&t, *i)?.clone();
            let at = (*i).min(t.blocks.len());
            t.blocks.insert(at, b);
        }
        FaultOp::BlockInsertAux { i, j } => {
            let b = get_block(a.as_ref()?, *j)?.clone();
            if *i > t.blocks.len() {
                return None;
            }
            t.blocks.insert(*i, b);
        }
        FaultOp::BlockAppendAux { j } => {
            let a = a?;
            let b = get_block(&a, *j)?.clone();
            t.blocks.push(b);
            t.proof = a.proof;
        }
        FaultOp::AuthorityFromAux => {
            t.authority = a?.authority;
        }
        FaultOp::NextKeyRand { i, seed } => {
            let alg = if get_block(&t, *i)?.next_key.algorithm == 1 { Alg::P256 } else { Alg::Ed25519 };
            let k = KeySpec { alg, seed: *seed }.keypair().public().to_proto();
            let mut bs = blocks_mut(&mut t);
            bs.get_mut(*i)?.next_key = k;
        }
        FaultOp::NextKeyFrom { i, j } => {
            if i == j {
                return None;
            }
            let k = get_block(&t, *j)?.next_key.clone();
            let mut bs = blocks_mut(&mut t);
            bs.get_mut(*i)?.next_key = k;
        }
        FaultOp::NextKeyAlg { i } => {
            let mut bs = blocks_mut(&mut t);
            let b = bs.get_mut(*i)?;
            b.next_key.algorithm = 1 - b.next_key.algorithm.clamp(0, 1);
        }
        FaultOp::KeyAlgTag { i, v, ext } => {
            let mut bs = blocks_mut(&mut t);
            let b = bs.get_mut(*i)?;
            if *ext {
                b.external_signature.as_mut()?.public_key.algorithm = *v;
            } else {
                b.next_key.algorithm = *v;
            }
        }
        FaultOp::NextKeyReenc { i } => {
            let mut bs = blocks_mut(&mut t);
            let b = bs.get_mut(*i)?;
            if b.next_key.algorithm != 1 {
                return None;
            }
            let vk = p256::ecdsa::VerifyingKey::from_sec1_bytes(&b.next_key.key).ok()?;
            b.next_key.key = vk.to_encoded_point(false).as_bytes().to_vec();
        }
        FaultOp::SigFlip { i, bit } => {
            let mut bs = blocks_mut(&mut t);
            if !flip(&mut bs.get_mut(*i)?.signature, *bit) {
                return None;
            }
        }
        FaultOp::SigTrunc { i } => {
            let mut bs = blocks_mut(&mut t);
            bs.get_mut(*i)?.signature.pop()?;
        }
        FaultOp::SigExt { i } => {
            let mut bs = blocks_mut(&mut t);
            bs.get_mut(*i)?.signature.push(0);
        }
        FaultOp::SigSwap { i, j } => {
            if i == j {
                return None;
            }
            let si = get_block(&t, *i)?.signature.clone();
            let sj = get_block(&t, *j)?.signature.clone();
            let mut bs = blocks_mut(&mut t);
            bs.get_mut(*i)?.signature = sj;
            bs.get_mut(*j)?.signature = si;
        }
        FaultOp::SigZero { i } => {
            let mut bs = blocks_mut(&mut t);
            let b = bs.get_mut(*i)?;
            for x in b.signature.iter_mut() {
                *x = 0;
            }
        }
        FaultOp::SigTwin { i } => {
            let mut bs = blocks_mut(&mut t);
            let b = bs.get_mut(*i)?;
            b.signature = ecdsa_twin(&b.signature)?;
        }
        FaultOp::SigDer { i, variant } => {
            let mut bs = blocks_mut(&mut t);
            let b = bs.get_mut(*i)?;
            b.signature = der_variant(&b.signature, *variant)?;
        }
        FaultOp::VerSet { i, v } => {
            let mut bs = blocks_mut(&mut t);
            let b = bs.get_mut(*i)?;
            if b.version == *v {
                return None;
            }
            b.version = *v;
        }
        FaultOp::ExtDel { i } => {
            let mut bs = blocks_mut(&mut t);
            let b = bs.get_mut(*i)?;
            b.external_signature.take()?;
        }
        FaultOp::ExtAddAux { i, j } => {
            let e = get_block(a.as_ref()?, *j)?.external_signature.clone()?;
            let mut bs = blocks_mut(&mut t);
            bs.get_mut(*i)?.external_signature = Some(e);
        }
        FaultOp::ExtKeyRand { i, seed } => {
            let mut bs = blocks_mut(&mut t);
            let b = bs.get_mut(*i)?;
            let e = b.external_signature.as_mut()?;
            let alg = if e.public_key.algorithm == 1 { Alg::P256 } else { Alg::Ed25519 };
            e.public_key = KeySpec { alg, seed: *seed }.keypair().public().to_proto();
        }
        FaultOp::ExtSigFlip { i, bit } => {
            let mut bs = blocks_mut(&mut t);
            let b = bs.get_mut(*i)?;
            let e = b.external_signature.as_mut()?;
            if !flip(&mut e.signature, *bit) {
                return None;
            }
        }
        FaultOp::ExtMove { i, j } => {
            if i == j {
                return None;
            }
            let mut bs = blocks_mut(&mut t);
            let e = bs.get_mut(*i)?.external_signature.take()?;
            bs.get_mut(*j)?.external_signature = Some(e);
        }
        FaultOp::ExtTwin { i } => {
            let mut bs = blocks_mut(&mut t);
            let b = bs.get_mut(*i)?;
            let e = b.external_signature.as_mut()?;
            e.signature = ecdsa_twin(&e.signature)?;
        }
        FaultOp::ProofFlip { bit } => match t.proof.content.as_mut()? {
            schema::proof::Content::NextSecret(s) | schema::proof::Content::FinalSignature(s) => {
                if !flip(s, *bit) {
                    return None;
                }
            }
        },
        FaultOp::ProofFromAux => {
            t.proof = a?.proof;
        }
        FaultOp::ProofKind => {
            t.proof.content = Some(match t.proof.content.take()? {
                schema::proof::Content::NextSecret(s) => schema::proof::Content::FinalSignature(s),
                schema::proof::Content::FinalSignature(s) => schema::proof::Content::NextSecret(s),
            });
        }
        FaultOp::ProofNone => {
            t.proof.content = None;
        }
        FaultOp::ProofRandSecret { seed } => {
            let alg = last_alg(&t);
            t.proof.content = Some(schema::proof::Content::NextSecret(
                KeySpec { alg, seed: *seed }.secret(),
            ));
        }
        FaultOp::ProofReshape { how } => {
            let last_key = t.blocks.last().unwrap_or(&t.authority).next_key.key.clone();
            match t.proof.content.as_mut()? {
                schema::proof::Content::NextSecret(s) => match how {
                    0 => s.extend_from_slice(&last_key),
                    1 => s.insert(0, 0),
                    _ => s.push(0),
                },
                _ => return None,
            }
        }
        FaultOp::SealTwin => {
            match t.proof.content.as_mut()? {
                schema::proof::Content::FinalSignature(s) => {
                    *s = ecdsa_twin(s)?;
                }
                _ => return None,
            }
        }
        FaultOp::AppendWithRandKey { seed } => {
            // forge one more block after the last one with a key the adversary makes up
            let alg = last_alg(&t);
            let signer = KeySpec { alg, seed: *seed };
            let next = KeySpec { alg: Alg::Ed25519, seed: seed.wrapping_add(1) };
            let last = t.blocks.last().unwrap_or(&t.authority).clone();
            let payload = last.block.clone();
            let next_r = next.rkey();
            let msg = refchain::block_payload(1, &payload, &next_r, Some(&last.signature), None).ok()?;
            let sig = refchain::sign(signer.alg, &signer.secret(), &msg).ok()?;
            t.blocks.push(schema::SignedBlock {
                block: payload,
                next_key: next.keypair().public().to_proto(),
                signature: sig,
                external_signature: None,
                version: Some(1),
            });
            t.proof.content = Some(schema::proof::Content::NextSecret(next.secret()));
        }
        FaultOp::TpForge { block_version, ext_layout } => {
            let secret = match &t.proof.content {
                Some(schema::proof::Content::NextSecret(s)) => s.clone(),
                _ => return None,
            };
            let last = t.blocks.last().unwrap_or(&t.authority).clone();
            let holder_alg = last_alg(&t);
            let signer = KeySpec { alg: Alg::Ed25519, seed: 0x7b7b };
            let next = KeySpec { alg: Alg::Ed25519, seed: 0x7b7c };
            // an empty Datalog 3.2 block
            let mut payload = Vec::new();
            schema::Block { symbols: vec![], context: None, version: Some(5), facts_v2: vec![], rules_v2: vec![], checks_v2: vec![], scope: vec![], public_keys: vec![] }
                .encode(&mut payload)
                .ok()?;
            let prev_key = refchain::parse_key(&last.next_key).ok()?;
            let ext_msg = match ext_layout {
                // deprecated: payload, algorithm and bytes of the previous block's next key
                0 => {
                    let mut v = payload.clone();
                    v.extend_from_slice(&(if prev_key.alg == Alg::P256 { 1i32 } else { 0i32 }).to_le_bytes());
                    v.extend_from_slice(&prev_key.bytes);
                    v
                }
                // current layout, declaring version 0
                1 => {
                    let mut v = b"\0EXTERNAL\0\0VERSION\0".to_vec();
                    v.extend_from_slice(&0u32.to_le_bytes());
                    v.extend_from_slice(b"\0PAYLOAD\0");
                    v.extend_from_slice(&payload);
                    v.extend_from_slice(b"\0PREVSIG\0");
                    v.extend_from_slice(&last.signature);
                    v
                }
                _ => refchain::external_payload(&payload, &last.signature),
            };
            // (block version 1 with the current external layout is what an honest signer and
            // holder produce: not a fault)
            if *block_version == 1 && *ext_layout == 2 {
                return None;
            }
            // layouts 3..: nobody signs. The external key is a small-order point of the Ed25519
            // curve (3: the neutral element, 4: the point of order two) and the "signature" is
            // R = neutral element, S = 0, which the permissive verification equation
            // [S]B = R + [k]A accepts for the neutral key whatever the message (and for the
            // order-two key whenever k is even); strict verification refuses such keys
            let (ext_sig, ext_pk) = if *ext_layout >= 3 {
                let mut ident = vec![0u8; 32];
                ident[0] = 1;
                let mut key = ident.clone();
                if *ext_layout >= 4 {
                    key = vec![0xff; 32];
                    key[0] = 0xec;
                    key[31] = 0x7f;
                }
                let mut s = ident;
                s.extend_from_slice(&[0u8; 32]);
                (s, schema::PublicKey { algorithm: 0, key })
            } else {
                (refchain::sign(signer.alg, &signer.secret(), &ext_msg).ok()?, signer.keypair().public().to_proto())
            };
            let msg = refchain::block_payload(*block_version, &payload, &next.rkey(), Some(&last.signature), Some(&ext_sig)).ok()?;
            let sig = refchain::sign(holder_alg, &secret, &msg).ok()?;
            t.blocks.push(schema::SignedBlock {
                block: payload,
                next_key: next.keypair().public().to_proto(),
                signature: sig,
                external_signature: Some(schema::ExternalSignature { signature: ext_sig, public_key: ext_pk }),
                version: if *block_version > 0 { Some(*block_version) } else { None },
            });
            t.proof.content = Some(schema::proof::Content::NextSecret(next.secret()));
        }
        FaultOp::KidSet { v } => {
            if t.root_key_id == *v {
                return None;
            }
            t.root_key_id = *v;
        }
        FaultOp::EncDupRootKeyId => {
            // the same scalar field twice: last one wins in protobuf
            let id = t.root_key_id?;
            let mut v = vec![0x08];
            let mut x = (id ^ 1) as u64;
            loop {
                let b = (x & 0x7f) as u8;
                x >>= 7;
                if x == 0 {
                    v.push(b);
                    break;
                }
                v.push(b | 0x80);
            }
            // wrong value first, then the original message (whose value comes last and wins)
            v.extend_from_slice(victim);
            let _ = proof_secret(&t);
            return Some(v);
        }
        _ => return None,
    }
    Some(encode(&t))
}

/// the complete structured table for a victim with `n` blocks and an aux with `m` blocks,
/// plus `n_bytes` seeded byte faults
pub fn table(n: usize, m: Option<usize>, victim_len: usize, seed: u64, n_bytes: usize) -> Vec<FaultOp> {
    let mut v = Vec::new();
    let mut rng = crate::rng::Rng::derive(seed, "faults", 0);
    for i in 0..n {
        v.push(FaultOp::PayloadFlip { i, bit: rng.below(4096) });
        for j in 0..n {
            if i != j {
                v.push(FaultOp::PayloadFrom { i, j });
                v.push(FaultOp::BlockSwap { i, j });
                v.push(FaultOp::NextKeyFrom { i, j });
                v.push(FaultOp::SigSwap { i, j });
                v.push(FaultOp::ExtMove { i, j });
            }
        }
        v.push(FaultOp::BlockDup { i });
        v.push(FaultOp::NextKeyRand { i, seed: rng.next() >> 8 });
        v.push(FaultOp::NextKeyAlg { i });
        v.push(FaultOp::KeyAlgTag { i, v: 2, ext: false });
        v.push(FaultOp::KeyAlgTag { i, v: -1, ext: false });
        v.push(FaultOp::KeyAlgTag { i, v: 7, ext: true });
        v.push(FaultOp::NextKeyReenc { i });
        v.push(FaultOp::SigFlip { i, bit: rng.below(512) });
        v.push(FaultOp::SigFlip { i, bit: 511 });
        v.push(FaultOp::SigTrunc { i });
        v.push(FaultOp::SigExt { i });
        v.push(FaultOp::SigZero { i });
        v.push(FaultOp::SigTwin { i });
        for variant in 0..5 {
            v.push(FaultOp::SigDer { i, variant });
        }
        for ver in [None, Some(0), Some(1), Some(2), Some(7)] {
            v.push(FaultOp::VerSet { i, v: ver });
        }
        v.push(FaultOp::ExtDel { i });
        v.push(FaultOp::ExtKeyRand { i, seed: rng.next() >> 8 });
        v.push(FaultOp::ExtSigFlip { i, bit: rng.below(512) });
        v.push(FaultOp::ExtTwin { i });
        if let Some(m) = m {
            for j in 0..m {
                v.push(FaultOp::PayloadFromAux { i, j });
                v.push(FaultOp::BlockInsertAux { i, j });
                v.push(FaultOp::ExtAddAux { i, j });
            }
        }
    }
    for k in 1..n {
        v.push(FaultOp::BlockDrop { k });
        if m.is_some() {
            v.push(FaultOp::BlockDropProofAux { k });
        }
    }
    if let Some(m) = m {
        v.push(FaultOp::AuthorityFromAux);
        v.push(FaultOp::ProofFromAux);
        for j in 0..m {
            v.push(FaultOp::BlockAppendAux { j });
        }
    }
    v.push(FaultOp::ProofFlip { bit: rng.below(256) });
    v.push(FaultOp::ProofKind);
    v.push(FaultOp::ProofNone);
    v.push(FaultOp::ProofRandSecret { seed: rng.next() >> 8 });
    for how in 0..3 {
        v.push(FaultOp::ProofReshape { how });
    }
    v.push(FaultOp::SealTwin);
    v.push(FaultOp::AppendWithRandKey { seed: rng.next() >> 8 });
    for (block_version, ext_layout) in [(0u32, 0u8), (0, 1), (0, 2), (1, 0), (1, 1), (1, 3), (1, 4), (0, 3)] {
        v.push(FaultOp::TpForge { block_version, ext_layout });
    }
    for kid in [None, Some(0), Some(1), Some(7)] {
        v.push(FaultOp::KidSet { v: kid });
    }
    v.push(FaultOp::EncUnknownField);
    v.push(FaultOp::EncDupRootKeyId);
    for _ in 0..n_bytes {
        let o = rng.below(victim_len.max(1));
        match rng.below(5) {
            0 | 1 => v.push(FaultOp::ByteFlip { o, bit: rng.below(8) }),
            2 => v.push(FaultOp::ByteTrunc { n: 1 + rng.below(victim_len.max(2) - 1) }),
            3 => v.push(FaultOp::ByteExt { n: 1 + rng.below(4) }),
            _ => v.push(FaultOp::ByteZero { o, len: 1 + rng.below(8) }),
        }
    }
    v
}
