//! Thin wrappers around the real biscuit-auth API used by every engine: build an authorizer from
//! the simulator AST, run it under the virtual clock and a chosen hash key, and bring results
//! back into simulator types (sorted, so that unordered API results never reach an oracle as-is).
use crate::ast::*;
use crate::refdl::{CheckId, Decision, Facts};
use biscuit_auth::builder as b;
use biscuit_auth::{error, Authorizer, AuthorizerLimits, Biscuit};
use serde::{Deserialize, Serialize};
use std::collections::BTreeSet;
use std::time::Duration;

#[derive(Clone, Copy, Debug, PartialEq, Eq, Serialize, Deserialize)]
pub struct Limits {
    pub max_facts: u64,
    pub max_iterations: u64,
    pub max_time_ns: u64,
}

impl Limits {
    pub fn generous() -> Limits {
        Limits {
            max_facts: 1_000_000,
            max_iterations: 100_000,
            max_time_ns: 3_600_000_000_000,
        }
    }
    pub fn to_lib(&self) -> AuthorizerLimits {
        AuthorizerLimits {
            max_facts: self.max_facts,
            max_iterations: self.max_iterations,
            max_time: Duration::from_nanos(self.max_time_ns),
        }
    }
}

#[derive(Clone, Debug, PartialEq, Eq, PartialOrd, Ord)]
pub enum Outcome {
    D(Decision),
    ExprError(String),
    RunLimit(String),
    Other(String),
}

impl Outcome {
    pub fn is_allowed(&self) -> bool {
        matches!(self, Outcome::D(Decision::Allowed(_)))
    }
    pub fn failed_checks(&self) -> Option<Vec<CheckId>> {
        match self {
            Outcome::D(Decision::Allowed(_)) => Some(vec![]),
            Outcome::D(Decision::Refused { checks, .. }) => Some(checks.clone()),
            Outcome::D(Decision::NoPolicy { checks }) => Some(checks.clone()),
            _ => None,
        }
    }
    pub fn class(&self) -> String {
        match self {
            Outcome::D(Decision::Allowed(i)) => format!("allowed({i})"),
            Outcome::D(Decision::Refused { allow, policy, checks }) => format!(
                "refused({}{},{} checks)",
                if *allow { "allow" } else { "deny" },
                policy,
                checks.len()
            ),
            Outcome::D(Decision::NoPolicy { checks }) => format!("nopolicy({} checks)", checks.len()),
            Outcome::D(Decision::Error(e)) => format!("referror({e:?})"),
            Outcome::ExprError(e) => format!("exprerror({e})"),
            Outcome::RunLimit(e) => format!("runlimit({e})"),
            Outcome::Other(e) => format!("other({e})"),
        }
    }
}

fn checks_of(checks: &[error::FailedCheck]) -> Vec<CheckId> {
    checks
        .iter()
        .map(|c| match c {
            error::FailedCheck::Authorizer(a) => CheckId::Authorizer(a.check_id as usize),
            error::FailedCheck::Block(b) => CheckId::Block(b.block_id as usize, b.check_id as usize),
        })
        .collect()
}

thread_local! {
    /// rolling digest of everything the library returned during the current run (determinism proof)
    static DIGEST: std::cell::Cell<u64> = std::cell::Cell::new(0);
}

pub fn digest_mix(bytes: &[u8]) {
    DIGEST.with(|d| d.set(crate::rng::mix(d.get(), crate::rng::fnv(bytes))));
}

/// returns the digest accumulated since the last call and resets it
pub fn digest_take() -> u64 {
    DIGEST.with(|d| d.replace(0))
}

pub fn outcome_of(res: Result<usize, error::Token>) -> Outcome {
    let o = outcome_of_inner(res);
    digest_mix(format!("{o:?}").as_bytes());
    o
}

fn outcome_of_inner(res: Result<usize, error::Token>) -> Outcome {
    match res {
        Ok(i) => Outcome::D(Decision::Allowed(i)),
        Err(error::Token::FailedLogic(error::Logic::Unauthorized { policy, checks })) => {
            let (allow, policy) = match policy {
                error::MatchedPolicy::Allow(i) => (true, i),
                error::MatchedPolicy::Deny(i) => (false, i),
            };
            Outcome::D(Decision::Refused {
                allow,
                policy,
                checks: checks_of(&checks),
            })
        }
        Err(error::Token::FailedLogic(error::Logic::NoMatchingPolicy { checks })) => {
            Outcome::D(Decision::NoPolicy {
                checks: checks_of(&checks),
            })
        }
        Err(error::Token::Execution(e)) => Outcome::ExprError(format!("{e:?}")),
        Err(error::Token::RunLimit(l)) => Outcome::RunLimit(format!("{l:?}")),
        Err(e) => Outcome::Other(format!("{e:?}")),
    }
}

/// installs the simulator's seams for one evaluation: frozen virtual clock and the hash key
pub fn install(hash_key: u64) {
    biscuit_auth::verif::set_hash_key(hash_key);
    // the clock rate varies with the hash key; one key in four gets a clock too coarse to see the
    // evaluation at all (execution time 0, as with the clamped timers of a browser), the others
    // see it advance at every unit of work. A restored snapshot takes different paths in the two
    // cases (an execution time of 0 reads as "not evaluated yet").
    let per_tick_ns = (hash_key >> 3) % 4;
    biscuit_auth::verif::install_clock(biscuit_auth::verif::ClockScript { per_tick_ns, stall_at: None });
}

pub fn build_authorizer(
    token: Option<&Biscuit>,
    auth: &crate::ast::Authorizer,
    limits: Limits,
) -> Result<Authorizer, String> {
    let ab = auth
        .to_builder()
        .map_err(|e| format!("authorizer builder: {e:?}"))?
        .limits(limits.to_lib());
    match token {
        Some(t) => ab.build(t).map_err(|e| format!("{e:?}")),
        None => ab.build_unauthenticated().map_err(|e| format!("{e:?}")),
    }
}

pub fn facts_of(v: Vec<b::Fact>) -> Result<BTreeSet<Pred>, String> {
    v.iter()
        .map(|f| Pred::from_builder(&f.predicate))
        .collect::<Result<BTreeSet<_>, _>>()
}

pub fn query(a: &mut Authorizer, rule: &Rule, all: bool) -> Result<BTreeSet<Pred>, String> {
    let r = rule.to_builder();
    let res: Result<Vec<b::Fact>, error::Token> = if all { a.query_all(r) } else { a.query(r) };
    let out = match res {
        Ok(v) => facts_of(v),
        Err(e) => Err(format!("{e:?}")),
    };
    digest_mix(format!("{out:?}").as_bytes());
    out
}

/// the engine's facts with their origins, read through the snapshot wire form
pub fn world_facts(a: &Authorizer) -> Result<Facts, String> {
    let bytes = a.to_raw_snapshot().map_err(|e| format!("{e:?}"))?;
    Ok(crate::wire::decode_snapshot(&bytes)?.facts)
}

#[derive(Clone, Debug, PartialEq, Eq)]
pub struct Evaluation {
    pub build: Result<(), String>,
    pub outcome: Option<Outcome>,
    pub queries: Vec<(Result<BTreeSet<Pred>, String>, Result<BTreeSet<Pred>, String>)>,
    pub facts: Option<Result<Facts, String>>,
    pub iterations: u64,
}

/// the ways an application gets from (token, authorizer contents) to an authorizer it evaluates;
/// every one of them must give the same answers
#[derive(Clone, Copy, Debug, PartialEq, Eq)]
pub enum Route {
    /// AuthorizerBuilder::build(token)
    Direct,
    /// built, saved before any evaluation, restored (another process takes over)
    SnapshotFresh,
    /// built, evaluated with run(), saved, restored
    SnapshotEvaluated,
    /// the builder itself saved and restored before build(token)
    BuilderSnapshot,
}

pub const ROUTES: [Route; 4] = [Route::Direct, Route::SnapshotFresh, Route::SnapshotEvaluated, Route::BuilderSnapshot];

pub fn build_via(route: Route, token: Option<&Biscuit>, auth: &crate::ast::Authorizer, limits: Limits) -> Result<Authorizer, String> {
    match route {
        Route::Direct => build_authorizer(token, auth, limits),
        Route::SnapshotFresh | Route::SnapshotEvaluated => {
            let mut a = build_authorizer(token, auth, limits)?;
            if route == Route::SnapshotEvaluated {
                let _ = a.run();
            }
            let bytes = a.to_raw_snapshot().map_err(|e| format!("snapshot: {e:?}"))?;
            Authorizer::from_raw_snapshot(&bytes).map_err(|e| format!("restore: {e:?}"))
        }
        Route::BuilderSnapshot => {
            let ab = auth.to_builder().map_err(|e| format!("authorizer builder: {e:?}"))?.limits(limits.to_lib());
            let bytes = ab.to_raw_snapshot().map_err(|e| format!("builder snapshot: {e:?}"))?;
            let ab = biscuit_auth::builder::AuthorizerBuilder::from_raw_snapshot(&bytes).map_err(|e| format!("builder restore: {e:?}"))?;
            match token {
                Some(t) => ab.build(t).map_err(|e| format!("{e:?}")),
                None => ab.build_unauthenticated().map_err(|e| format!("{e:?}")),
            }
        }
    }
}

/// build + authorize + queries + facts, under `hash_key`
pub fn evaluate(
    token: Option<&Biscuit>,
    auth: &crate::ast::Authorizer,
    queries: &[Rule],
    hash_key: u64,
    limits: Limits,
    want_facts: bool,
) -> Evaluation {
    evaluate_via(Route::Direct, token, auth, queries, hash_key, limits, want_facts)
}

pub fn evaluate_via(
    route: Route,
    token: Option<&Biscuit>,
    auth: &crate::ast::Authorizer,
    queries: &[Rule],
    hash_key: u64,
    limits: Limits,
    want_facts: bool,
) -> Evaluation {
    install(hash_key);
    let mut a = match build_via(route, token, auth, limits) {
        Ok(a) => a,
        Err(e) => {
            return Evaluation {
                build: Err(e),
                outcome: None,
                queries: vec![],
                facts: None,
                iterations: 0,
            }
        }
    };
    let outcome = outcome_of(a.authorize());
    let mut qs = Vec::new();
    for q in queries {
        let r1 = query(&mut a, q, false);
        let r2 = query(&mut a, q, true);
        qs.push((r1, r2));
    }
    let facts = if want_facts { Some(world_facts(&a)) } else { None };
    Evaluation {
        build: Ok(()),
        outcome: Some(outcome),
        queries: qs,
        facts,
        iterations: a.iterations(),
    }
}
