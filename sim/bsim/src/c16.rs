//! C16, Byzantine part: a holder (or issuer) that signs correctly but re-declares the Datalog
//! version of a legitimately built block as each of absent, 0..8. Such a token must be refused
//! before evaluation when the declared version is outside 3..6 or lower than a feature the block
//! contains (R4), and accepted otherwise.
use crate::ast::Alg;
use crate::c09::{byzantine_append, encode_block, legit_block_payload};
use crate::keys::KeySpec;
use crate::refchain;
use crate::versions;
use crate::world::Run;
use biscuit_auth::Biscuit;

impl<'a> Run<'a> {
    /// the same re-declarations inside an authorizer snapshot (the other way a block reaches
    /// the engine): the version of the token's last block is rewritten in the saved message
    pub fn check_c16_snapshot(&mut self, idx: usize) {
        use biscuit_auth::format::schema;
        use prost::Message;
        let slot = &self.slots[idx];
        let n = slot.ghost.len();
        let last = slot.ghost[n - 1].clone();
        if last.external.is_some() {
            return;
        }
        let root = self.scn.issuers[slot.issuer].key.keypair().public();
        let min = versions::min_version(&last.ast, false);
        let token = match Biscuit::from(&slot.bytes, root) {
            Ok(t) => t,
            Err(_) => return,
        };
        biscuit_auth::verif::install_clock(biscuit_auth::verif::ClockScript::default());
        let base = match token.authorizer().ok().and_then(|a| a.to_raw_snapshot().ok()) {
            Some(b) => b,
            None => return,
        };
        let snap = match schema::AuthorizerSnapshot::decode(&base[..]) {
            Ok(s) if s.world.blocks.len() == n => s,
            _ => return,
        };
        for v in [None, Some(0u32), Some(1), Some(2), Some(3), Some(4), Some(5), Some(6), Some(7), Some(8)] {
            let mut s = snap.clone();
            s.world.blocks[n - 1].version = v;
            let mut bytes = Vec::new();
            if s.encode(&mut bytes).is_err() {
                continue;
            }
            self.stats.bump("fault.byzantine_version_in_snapshot");
            self.stats.oracle_evals += 1;
            let declared = v.unwrap_or(0);
            let must_refuse = !(3..=6).contains(&declared) || declared < min;
            biscuit_auth::verif::install_clock(biscuit_auth::verif::ClockScript::default());
            let outcome = biscuit_auth::Authorizer::from_raw_snapshot(&bytes).map(|_| ()).map_err(|e| format!("{e:?}"));
            let ticks = biscuit_auth::verif::ticks();
            match (&outcome, must_refuse) {
                (Ok(()), true) => self.violate(
                    "C16",
                    "underdeclared-accepted",
                    format!(
                        "slot {idx} block {} inside an authorizer snapshot: declared version {:?} (block needs {min}) is accepted by Authorizer::from_raw_snapshot; block: {}",
                        n - 1,
                        v,
                        last.ast.source().replace('\n', " ")
                    ),
                ),
                (Err(e), false) => self.violate(
                    "C16",
                    "sufficient-version-refused",
                    format!("slot {idx} block {} inside an authorizer snapshot: declared version {:?} (block needs {min}) is refused: {e}", n - 1, v),
                ),
                (Err(_), true) => {
                    self.stats.bump("c16.underdeclared_refused_in_snapshot");
                    if ticks != 0 {
                        self.violate(
                            "C16",
                            "evaluated-before-refusal",
                            format!("slot {idx} block {} inside a snapshot: declared version {:?} refused only after {ticks} units of evaluation work", n - 1, v),
                        );
                    }
                }
                (Ok(()), false) => self.stats.bump("c16.redeclared_accepted_in_snapshot"),
            }
        }
    }

    pub fn check_c16_byzantine(&mut self, idx: usize) {
        let slot = &self.slots[idx];
        let n = slot.ghost.len();
        let last = slot.ghost[n - 1].clone();
        if last.external.is_some() || slot.sealed {
            return;
        }
        let issuer = slot.issuer;
        let root = self.scn.issuers[issuer].key.keypair().public();
        let min = versions::min_version(&last.ast, false);
        let block = match legit_block_payload(&slot.bytes, n - 1) {
            Some(b) => b,
            None => return,
        };
        // the token the block was appended to (or nothing for an authority block)
        let parent_bytes: Option<Vec<u8>> = if n == 1 {
            None
        } else {
            match (slot.parent, slot.extends_parent) {
                (Some(p), true) => Some(self.slots[p].bytes.clone()),
                _ => return,
            }
        };
        let next = KeySpec { alg: Alg::Ed25519, seed: 0x16 };
        for v in [None, Some(0u32), Some(1), Some(2), Some(3), Some(4), Some(5), Some(6), Some(7), Some(8)] {
            let mut b = block.clone();
            b.version = v;
            let payload = encode_block(&b);
            let bytes = match &parent_bytes {
                Some(p) => byzantine_append(p, payload, next, 1),
                None => {
                    let spec = &self.scn.issuers[issuer];
                    refchain::sign_token(
                        spec.key.alg,
                        &spec.key.secret(),
                        spec.root_key_id,
                        &[refchain::SignBlock { payload, next_alg: next.alg, next_secret: next.secret(), external: None, version: 1 }],
                        false,
                    )
                    .ok()
                }
            };
            let bytes = match bytes {
                Some(b) => b,
                None => continue,
            };
            self.stats.bump("fault.byzantine_version");
            self.stats.oracle_evals += 1;
            let declared = v.unwrap_or(0);
            let must_refuse = !(3..=6).contains(&declared) || declared < min;
            biscuit_auth::verif::install_clock(biscuit_auth::verif::ClockScript::default());
            let outcome: Result<(), String> = Biscuit::from(&bytes, root)
                .map_err(|e| format!("from: {e:?}"))
                .and_then(|t| t.authorizer().map(|_| ()).map_err(|e| format!("authorizer: {e:?}")));
            let ticks = biscuit_auth::verif::ticks();
            match (&outcome, must_refuse) {
                (Ok(()), true) => {
                    self.stats.bump("c16.underdeclared_accepted");
                    self.violate(
                        "C16",
                        "underdeclared-accepted",
                        format!(
                            "slot {idx} block {}: declared version {:?} (block needs {min}) is accepted and an authorizer is built; block: {}",
                            n - 1,
                            v,
                            last.ast.source().replace('\n', " ")
                        ),
                    );
                }
                (Err(e), false) => {
                    self.violate(
                        "C16",
                        "sufficient-version-refused",
                        format!("slot {idx} block {}: declared version {:?} (block needs {min}) is refused: {e}", n - 1, v),
                    );
                }
                (Err(_), true) => {
                    self.stats.bump("c16.underdeclared_refused");
                    if ticks != 0 {
                        self.violate(
                            "C16",
                            "evaluated-before-refusal",
                            format!("slot {idx} block {}: declared version {:?} refused only after {ticks} units of evaluation work", n - 1, v),
                        );
                    }
                }
                (Ok(()), false) => self.stats.bump("c16.redeclared_accepted"),
            }
        }
    }
}
