//! C05: the Datalog engine driven directly (`datalog::World`), with facts of arbitrary origin
//! sets and rules with arbitrary trusted-origin sets. The schedule is insertion order x hash key;
//! the oracle is R2's naive fixpoint over (fact, origin) pairs.
use crate::ast::*;
use crate::driver::{CaseResult, Engine};
use crate::gen::{Gen, GenCfg, Pool};
use crate::libeval;
use crate::refdl::{self, Facts, Origin};
use crate::rng::Rng;
use crate::world::{Stats, Violation};
use biscuit_auth::builder::{self as b, Convert};
use biscuit_auth::datalog::{self, RunLimits, SymbolTable, TrustedOrigins};
use serde::{Deserialize, Serialize};
use std::collections::BTreeSet;
use std::time::Duration;

const IDS: [usize; 6] = [0, 1, 2, 3, 7, usize::MAX];

#[derive(Clone, Debug, Serialize, Deserialize)]
pub struct DlCase {
    pub facts: Vec<(Vec<usize>, Pred)>,
    pub rules: Vec<(usize, Vec<usize>, Rule)>,
    pub queries: Vec<(usize, Vec<usize>, Rule)>,
    pub orders: Vec<u64>,
    pub hash_keys: Vec<u64>,
}

pub struct DlEngine;

fn origin_of(o: &datalog::Origin) -> Origin {
    IDS.iter()
        .filter(|id| o.is_superset(&[**id].into_iter().collect::<datalog::Origin>()))
        .cloned()
        .collect()
}

fn subset(rng: &mut Rng, min: usize, max: usize) -> Vec<usize> {
    let n = rng.range(min, max);
    let mut ids = IDS.to_vec();
    rng.shuffle(&mut ids);
    ids.truncate(n);
    ids.sort();
    ids
}

fn set(v: &[usize]) -> Origin {
    v.iter().cloned().collect()
}

impl Engine for DlEngine {
    type Case = DlCase;
    fn name(&self) -> &'static str {
        "datalog"
    }
    fn property(&self) -> &str {
        "C05"
    }
    fn generate(&self, run_seed: u64) -> DlCase {
        let mut rng = Rng::derive(run_seed, "dl", 0);
        let mut cfg = GenCfg::new(&mut Rng::derive(run_seed, "gencfg", 0));
        cfg.scopes = false;
        let mut pool = Pool::default();
        let mut grng = Rng::derive(run_seed, "datalog", 0);
        let nf = rng.range(3, 12);
        let nr = rng.range(1, 4);
        let mut facts = Vec::new();
        for _ in 0..nf {
            let f = Gen { rng: &mut grng, cfg: &cfg, pool: &mut pool }.fact();
            let o = if rng.chance(2, 3) { vec![*rng.pick(&[0usize, 1, usize::MAX])] } else { subset(&mut rng, 1, 3) };
            facts.push((o, f));
        }
        let mut rules = Vec::new();
        if rng.chance(1, 3) {
            // a recursive closure over a small graph, split over several origins
            let n = rng.range(2, 5);
            for i in 0..n {
                let e = Pred::new("edge", vec![Term::Int(i as i64), Term::Int(((i + 1) % (n + 1)) as i64)]);
                pool.facts.push(e.clone());
                facts.push((vec![*rng.pick(&[0usize, 1, 2])], e));
            }
            let v = |s: &str| Term::Var(s.to_string());
            rules.push((
                *rng.pick(&IDS),
                subset(&mut rng, 4, 6),
                Rule {
                    head: Pred::new("path", vec![v("a"), v("b")]),
                    body: vec![Pred::new("edge", vec![v("a"), v("b")])],
                    exprs: vec![],
                    scopes: vec![],
                },
            ));
            rules.push((
                *rng.pick(&IDS),
                subset(&mut rng, 4, 6),
                Rule {
                    head: Pred::new("path", vec![v("a"), v("c")]),
                    body: vec![
                        Pred::new("path", vec![v("a"), v("b")]),
                        Pred::new("edge", vec![v("b"), v("c")]),
                    ],
                    exprs: if rng.chance(1, 2) {
                        vec![Expr::bin(BinOp::Ne, Expr::var("a"), Expr::var("c"))]
                    } else {
                        vec![]
                    },
                    scopes: vec![],
                },
            ));
        }
        for _ in 0..nr {
            let mut r = Gen { rng: &mut grng, cfg: &cfg, pool: &mut pool }.rule(false);
            r.scopes.clear();
            if rng.chance(1, 60) {
                // a head variable that the body does not bind: the rule must produce nothing
                if let Some(t) = r.head.terms.first_mut() {
                    *t = Term::Var("unbound".to_string());
                }
            }
            let owner = *rng.pick(&IDS);
            let mut trusted = subset(&mut rng, 2, 6);
            if rng.chance(3, 4) && !trusted.contains(&owner) {
                trusted.push(owner);
                trusted.sort();
            }
            rules.push((owner, trusted, r));
        }
        // the same rule text owned by several blocks, with the same or another trusted set: each
        // copy derives facts with its own owner in the origin
        if !rules.is_empty() && rng.chance(1, 3) {
            let (owner, trusted, r) = rng.pick(&rules).clone();
            let other_owner = *rng.pick(&IDS);
            let t2 = if rng.chance(2, 3) { trusted.clone() } else { subset(&mut rng, 2, 6) };
            rules.push((other_owner, t2, r.clone()));
            if rng.chance(1, 3) {
                rules.push((owner, trusted, r));
            }
        }
        let mut queries = Vec::new();
        for _ in 0..2 {
            let mut q = Gen { rng: &mut grng, cfg: &cfg, pool: &mut pool }.data_query();
            q.scopes.clear();
            queries.push((*rng.pick(&IDS), subset(&mut rng, 1, 5), q));
        }
        DlCase {
            facts,
            rules,
            queries,
            orders: (0..3).map(|_| rng.next() >> 8).collect(),
            hash_keys: (0..3).map(|_| rng.next() >> 8).collect(),
        }
    }

    fn execute(&self, case: &DlCase) -> CaseResult {
        let mut res = CaseResult::default();
        let mut stats = Stats::default();
        let ext = refdl::ExternTable::new();
        let rfacts: Facts = case.facts.iter().map(|(o, f)| (set(o), f.clone())).collect();
        let rrules: Vec<(usize, Origin, Rule)> = case
            .rules
            .iter()
            .map(|(owner, t, r)| (*owner, set(t), r.clone()))
            .collect();
        let want = match refdl::fixpoint(&rfacts, &rrules, &ext) {
            Ok(w) => w,
            Err(e) => {
                stats.bump("c05.skipped_reference_error");
                stats.trace.push(format!("referr:{e:?}"));
                res.stats = stats;
                return res;
            }
        };
        stats.trace.push(format!("facts:{}->{}", rfacts.len(), want.len()));
        for (owner, t, r) in &case.rules {
            stats.trace.push(format!("{}@{:?}/{:?}", r.source_rule(), owner, t));
        }
        stats.add("c05.derived_pairs", (want.len() - rfacts.len()) as u64);
        if want.len() > rfacts.len() {
            stats.bump("c05.derived_something");
        }
        if case.rules.iter().any(|(_, _, r)| r.head.terms.iter().any(|t| matches!(t, Term::Var(v) if v == "unbound"))) {
            stats.bump("c05.unbound_head_rule");
        }
        let mut violate = |class: &str, detail: String| {
            res.violations.push(Violation {
                property: "C05".to_string(),
                class: class.to_string(),
                event: None,
                detail,
                focus: None,
            });
        };
        'variants: for order in &case.orders {
            for hk in &case.hash_keys {
                libeval::install(*hk);
                let mut symbols = SymbolTable::new();
                let mut world = datalog::World::new();
                let mut facts = case.facts.clone();
                let mut rules = case.rules.clone();
                let mut prng = Rng::derive(*order, "order", 0);
                prng.shuffle(&mut facts);
                prng.shuffle(&mut rules);
                // interleave facts and rules insertion
                let mut fi = facts.into_iter();
                let mut ri = rules.into_iter();
                loop {
                    let take_fact = prng.chance(2, 3);
                    let mut progressed = false;
                    if take_fact {
                        if let Some((o, f)) = fi.next() {
                            let origin: datalog::Origin = o.iter().cloned().collect();
                            world.add_fact(&origin, f.to_builder_fact().convert(&mut symbols));
                            progressed = true;
                        }
                    }
                    if !progressed {
                        if let Some((owner, t, r)) = ri.next() {
                            let trusted: TrustedOrigins = t.iter().cloned().collect();
                            world.add_rule(owner, &trusted, r.to_builder().convert(&mut symbols));
                            progressed = true;
                        } else if let Some((o, f)) = fi.next() {
                            let origin: datalog::Origin = o.iter().cloned().collect();
                            world.add_fact(&origin, f.to_builder_fact().convert(&mut symbols));
                            progressed = true;
                        }
                    }
                    if !progressed {
                        break;
                    }
                }
                let limits = RunLimits {
                    max_facts: 1_000_000,
                    max_iterations: 100_000,
                    max_time: Duration::from_secs(3600),
                };
                stats.oracle_evals += 1;
                if let Err(e) = world.run_with_limits(&symbols, limits) {
                    violate(
                        "engine-error",
                        format!("order {order} hash key {hk}: engine fails on an error-free program under non-binding limits: {e:?}"),
                    );
                    break 'variants;
                }
                let mut got = Facts::new();
                let mut bad = None;
                for (o, f) in world.facts.iter_all() {
                    match b::Fact::convert_from(f, &symbols).map_err(|e| format!("{e:?}")).and_then(|f| Pred::from_builder(&f.predicate)) {
                        Ok(p) => {
                            got.insert((origin_of(o), p));
                        }
                        Err(e) => bad = Some(e),
                    }
                }
                if let Some(e) = bad {
                    violate("fixpoint-differs", format!("a derived fact cannot be read back: {e}"));
                    break 'variants;
                }
                libeval::digest_mix(format!("{got:?}").as_bytes());
                if got != want {
                    let missing: Vec<_> = want.difference(&got).take(3).collect();
                    let extra: Vec<_> = got.difference(&want).take(3).collect();
                    violate(
                        "fixpoint-differs",
                        format!(
                            "order {order} hash key {hk}: engine has {} (fact, origin) pairs, least fixpoint has {}; missing {:?}; extra {:?}",
                            got.len(),
                            want.len(),
                            missing,
                            extra
                        ),
                    );
                    break 'variants;
                }
                for (qi, (owner, t, q)) in case.queries.iter().enumerate() {
                    let trusted_lib: TrustedOrigins = t.iter().cloned().collect();
                    let trusted = set(t);
                    let s = refdl::evaluate_query(q, &want, &trusted, &ext);
                    if !s.errors.is_empty() {
                        stats.bump("c05.query_skipped_reference_error");
                        continue;
                    }
                    stats.oracle_evals += 1;
                    let rule = q.to_builder().convert(&mut symbols);
                    let mut want_q: BTreeSet<(Origin, Pred)> = BTreeSet::new();
                    for (o, env) in &s.satisfied {
                        let mut o = o.clone();
                        o.insert(*owner);
                        // instantiate the head
                        let mut terms = Vec::new();
                        let mut ok = true;
                        for t in &q.head.terms {
                            match t {
                                Term::Var(v) => match env.get(v) {
                                    Some(x) => terms.push(x.clone()),
                                    None => ok = false,
                                },
                                other => terms.push(other.clone()),
                            }
                        }
                        if ok {
                            want_q.insert((o, Pred { name: q.head.name.clone(), terms }));
                        }
                    }
                    match world.query_rule(rule.clone(), *owner, &trusted_lib, &symbols) {
                        Ok(fs) => {
                            let mut got_q = BTreeSet::new();
                            for (o, f) in fs.iter_all() {
                                if let Ok(p) = b::Fact::convert_from(f, &symbols).map_err(|e| format!("{e:?}")).and_then(|f| Pred::from_builder(&f.predicate)) {
                                    got_q.insert((origin_of(o), p));
                                }
                            }
                            if got_q != want_q {
                                violate(
                                    "query-differs",
                                    format!("order {order} hash key {hk} query {qi}: query_rule gives {:?}, the model {:?}", got_q, want_q),
                                );
                                break 'variants;
                            }
                        }
                        Err(e) => {
                            violate("engine-error", format!("query_rule fails on an error-free query: {e:?}"));
                            break 'variants;
                        }
                    }
                    let m = world.query_match(rule.clone(), *owner, &trusted_lib, &symbols);
                    if m != Ok(!s.satisfied.is_empty()) {
                        violate(
                            "query-differs",
                            format!("order {order} hash key {hk} query {qi}: query_match gives {:?}, the model {}", m, !s.satisfied.is_empty()),
                        );
                        break 'variants;
                    }
                    let ma = world.query_match_all(rule, &trusted_lib, &symbols);
                    let want_all = s.body_matches > 0 && s.falsified == 0;
                    if ma != Ok(want_all) {
                        violate(
                            "query-differs",
                            format!("order {order} hash key {hk} query {qi}: query_match_all gives {:?}, the model {}", ma, want_all),
                        );
                        break 'variants;
                    }
                }
            }
        }
        res.stats = stats;
        res
    }

    fn shrink(&self, case: &DlCase) -> Vec<DlCase> {
        let mut out = Vec::new();
        if case.orders.len() > 1 || case.hash_keys.len() > 1 {
            for o in &case.orders {
                for h in &case.hash_keys {
                    let mut c = case.clone();
                    c.orders = vec![*o];
                    c.hash_keys = vec![*h];
                    out.push(c);
                }
            }
        }
        for i in 0..case.queries.len() {
            let mut c = case.clone();
            c.queries.remove(i);
            out.push(c);
        }
        for i in 0..case.rules.len() {
            let mut c = case.clone();
            c.rules.remove(i);
            out.push(c);
        }
        for i in 0..case.facts.len() {
            let mut c = case.clone();
            c.facts.remove(i);
            out.push(c);
        }
        for i in 0..case.rules.len() {
            for k in 0..case.rules[i].2.exprs.len() {
                let mut c = case.clone();
                c.rules[i].2.exprs.remove(k);
                out.push(c);
            }
            if case.rules[i].2.body.len() > 1 {
                for k in 0..case.rules[i].2.body.len() {
                    let mut c = case.clone();
                    c.rules[i].2.body.remove(k);
                    out.push(c);
                }
            }
        }
        out
    }

    fn reach_probes(&self) -> Vec<&'static str> {
        vec!["c05.derived_something", "c05.unbound_head_rule"]
    }
    fn level(&self) -> &'static str {
        "exploration"
    }
    fn rule(&self) -> String {
        "one run = one generated program (2..10 facts with arbitrary origin sets over {0,1,2,3,7,authorizer}, 1..4 rules with arbitrary owner and trusted-origin sets, recursive and multi-atom joins, typed expressions, 1 in 12 rules with an unbound head variable, 2 queries) loaded into datalog::World in 3 insertion orders x 3 hash keys; non-trivial = the engine result was compared with the reference fixpoint at least once; distinct = distinct (facts before -> facts after) traces".to_string()
    }
    fn assumptions(&self) -> Vec<String> {
        vec![
            "R2 (reference fixpoint) as validated against the conformance corpus".to_string(),
            "error-free programs: cases where the reference evaluator meets an expression error are skipped and counted".to_string(),
            "frozen virtual clock, limits far above what any generated program needs".to_string(),
        ]
    }
    fn components_real(&self) -> Vec<&'static str> {
        vec!["biscuit-auth datalog engine (World, FactSet, RuleSet, CombineIt, expressions, symbol table)"]
    }
}
