//! `bsim validate-models`: the reference models are checked against the cross-implementation
//! conformance corpus shipped in the repository (biscuit-auth/samples: 37 serialized tokens,
//! each block's source, each authorizer's source, expected world, result and revocation ids).
//! A disagreement is a harness error (exit 2): a wrong model must never raise a property alarm.
use crate::ast::{self, Alg, Block, Pred};
use crate::refchain::{self, RKey};
use crate::refdl::{self, CheckId, Decision, Facts, Origin, RBlock, AUTH};
use crate::versions;
use crate::wire;
use serde_json::Value;
use std::collections::BTreeSet;

fn parse_block(code: &str) -> Result<Block, String> {
    let r = biscuit_parser::parser::parse_block_source(code).map_err(|e| format!("{e:?}"))?;
    let mut b = Block::default();
    for s in &r.scopes {
        let s: biscuit_auth::builder::Scope = s.clone().into();
        b.scopes.push(ast::Scope::from_builder(&s)?);
    }
    for (_, f) in r.facts {
        let f: biscuit_auth::builder::Fact = f.into();
        b.facts.push(Pred::from_builder(&f.predicate)?);
    }
    for (_, x) in r.rules {
        let x: biscuit_auth::builder::Rule = x.into();
        b.rules.push(ast::Rule::from_builder(&x)?);
    }
    for (_, c) in r.checks {
        let c: biscuit_auth::builder::Check = c.into();
        b.checks.push(ast::Check::from_builder(&c)?);
    }
    Ok(wire::normalise_block(b))
}

fn parse_authorizer(code: &str) -> Result<ast::Authorizer, String> {
    let r = biscuit_parser::parser::parse_source(code).map_err(|e| format!("{e:?}"))?;
    let mut a = ast::Authorizer::default();
    for (_, f) in r.facts {
        let f: biscuit_auth::builder::Fact = f.into();
        a.facts.push(Pred::from_builder(&f.predicate)?);
    }
    for (_, x) in r.rules {
        let x: biscuit_auth::builder::Rule = x.into();
        a.rules.push(ast::Rule::from_builder(&x)?);
    }
    for (_, c) in r.checks {
        let c: biscuit_auth::builder::Check = c.into();
        a.checks.push(ast::Check::from_builder(&c)?);
    }
    for (_, p) in r.policies {
        let p: biscuit_auth::builder::Policy = p.into();
        a.policies.push(ast::Policy::from_builder(&p)?);
    }
    Ok(a)
}

fn parse_fact(s: &str) -> Result<Pred, String> {
    let b = parse_block(&format!("{s};"))?;
    b.facts.into_iter().next().ok_or_else(|| format!("no fact in {s}"))
}

/// parenthesis markers are printing artefacts: ignore them when comparing decoded and parsed code
fn strip_parens_expr(e: &ast::Expr) -> ast::Expr {
    match e {
        ast::Expr::Unary(ast::UnOp::Parens, x) => strip_parens_expr(x),
        ast::Expr::Unary(op, x) => ast::Expr::Unary(op.clone(), Box::new(strip_parens_expr(x))),
        ast::Expr::Binary(op, l, r) => ast::Expr::Binary(op.clone(), Box::new(strip_parens_expr(l)), Box::new(strip_parens_expr(r))),
        ast::Expr::Closure(p, b) => ast::Expr::Closure(p.clone(), Box::new(strip_parens_expr(b))),
        other => other.clone(),
    }
}

fn strip_parens(mut b: Block) -> Block {
    for r in b.rules.iter_mut() {
        r.exprs = r.exprs.iter().map(strip_parens_expr).collect();
    }
    for c in b.checks.iter_mut() {
        for q in c.queries.iter_mut() {
            q.exprs = q.exprs.iter().map(strip_parens_expr).collect();
        }
    }
    b
}

fn expected_decision(result: &Value) -> Option<Decision> {
    if let Some(i) = result.get("Ok").and_then(|v| v.as_u64()) {
        return Some(Decision::Allowed(i as usize));
    }
    let err = result.get("Err")?;
    if let Some(e) = err.get("Execution") {
        let kind = match e.as_str().unwrap_or("") {
            "Overflow" => refdl::EvalErr::Overflow,
            "DivideByZero" => refdl::EvalErr::DivideByZero,
            "InvalidType" => refdl::EvalErr::InvalidType,
            "ShadowedVariable" => refdl::EvalErr::ShadowedVariable,
            other => refdl::EvalErr::Unsupported(other.to_string()),
        };
        return Some(Decision::Error(kind));
    }
    let logic = err.get("FailedLogic")?;
    let checks = |v: &Value| -> Vec<CheckId> {
        v.as_array()
            .map(|a| {
                a.iter()
                    .map(|c| {
                        if let Some(b) = c.get("Block") {
                            CheckId::Block(b["block_id"].as_u64().unwrap_or(0) as usize, b["check_id"].as_u64().unwrap_or(0) as usize)
                        } else {
                            CheckId::Authorizer(c["Authorizer"]["check_id"].as_u64().unwrap_or(0) as usize)
                        }
                    })
                    .collect()
            })
            .unwrap_or_default()
    };
    if let Some(u) = logic.get("Unauthorized") {
        let (allow, policy) = if let Some(i) = u["policy"].get("Allow") {
            (true, i.as_u64().unwrap_or(0) as usize)
        } else {
            (false, u["policy"]["Deny"].as_u64().unwrap_or(0) as usize)
        };
        return Some(Decision::Refused { allow, policy, checks: checks(&u["checks"]) });
    }
    if let Some(n) = logic.get("NoMatchingPolicy") {
        return Some(Decision::NoPolicy { checks: checks(&n["checks"]) });
    }
    None
}

pub fn validate(repo: &str) -> i32 {
    let dir = format!("{repo}/biscuit-auth/samples");
    let text = match std::fs::read_to_string(format!("{dir}/samples.json")) {
        Ok(t) => t,
        Err(e) => {
            eprintln!("HARNESS: cannot read the conformance corpus: {e}");
            return 2;
        }
    };
    let doc: Value = match serde_json::from_str(&text) {
        Ok(d) => d,
        Err(e) => {
            eprintln!("HARNESS: samples.json: {e}");
            return 2;
        }
    };
    let root = RKey {
        alg: Alg::Ed25519,
        bytes: hex::decode(doc["root_public_key"].as_str().unwrap_or("")).unwrap_or_default(),
    };
    let root_secret = hex::decode(doc["root_private_key"].as_str().unwrap_or("")).unwrap_or_default();
    let mut problems: Vec<String> = Vec::new();
    let mut n = std::collections::BTreeMap::<&str, u64>::new();
    let mut bump = |k: &'static str| *n.entry(k).or_insert(0) += 1;
    for t in doc["testcases"].as_array().cloned().unwrap_or_default() {
        let name = t["filename"].as_str().unwrap_or("").to_string();
        let bytes = match std::fs::read(format!("{dir}/{name}")) {
            Ok(b) => b,
            Err(e) => {
                problems.push(format!("{name}: {e}"));
                continue;
            }
        };
        let validations = t["validations"].as_object().cloned().unwrap_or_default();
        let format_error = validations.values().any(|v| v["result"]["Err"].get("Format").is_some());
        // R1: accept / reject as the corpus says
        let r1 = refchain::verify(&bytes, &root);
        bump("r1.tokens");
        if r1.is_ok() == format_error {
            problems.push(format!("{name}: R1 says {:?}, the corpus expects {}", r1.as_ref().map(|_| "valid").map_err(|e| e.clone()), if format_error { "a format/signature error" } else { "a valid token" }));
        }
        // (what the *library* does on the corpus is a property matter, not a model matter:
        // see corpus.rs, run as part of the checks)
        if let Ok(content) = &r1 {
            // R1 signer: the authority signature is a deterministic function of the published root key
            let auth = &content.blocks[0];
            if let Ok(msg) = refchain::block_payload(auth.version, &auth.payload, &auth.next_key, None, None) {
                if let Ok(sig) = refchain::sign(Alg::Ed25519, &root_secret, &msg) {
                    bump("r1.authority_resigned");
                    if sig != auth.signature {
                        problems.push(format!("{name}: re-signing the authority block with the published private key gives another signature"));
                    }
                }
            }
            // revocation ids
            for v in validations.values() {
                if let Some(ids) = v["revocation_ids"].as_array() {
                    let want: Vec<String> = ids.iter().map(|x| x.as_str().unwrap_or("").to_string()).collect();
                    let got: Vec<String> = content.blocks.iter().map(|b| hex::encode(&b.signature)).collect();
                    bump("r1.revocation_ids");
                    if want != got {
                        problems.push(format!("{name}: revocation ids differ from the corpus"));
                    }
                }
            }
        }
        if r1.is_err() {
            continue;
        }
        // R3 + R4: decode the bytes independently and compare with the published source
        let decoded = match wire::decode_token(&bytes) {
            Ok(d) => d,
            Err(e) => {
                problems.push(format!("{name}: R3 cannot decode a valid token: {e}"));
                continue;
            }
        };
        let blocks_json = t["token"].as_array().cloned().unwrap_or_default();
        let mut rblocks: Vec<RBlock> = Vec::new();
        let mut parse_ok = true;
        for (i, bj) in blocks_json.iter().enumerate() {
            let code = bj["code"].as_str().unwrap_or("");
            let parsed = match parse_block(code) {
                Ok(b) => b,
                Err(e) => {
                    bump("r3.unparsable_source");
                    let _ = e;
                    parse_ok = false;
                    continue;
                }
            };
            let d = match decoded.get(i) {
                Some(d) => d,
                None => {
                    problems.push(format!("{name}: block {i} missing in R3's decoding"));
                    continue;
                }
            };
            bump("r3.blocks");
            let mut a = strip_parens(d.contents.clone());
            a.context = None;
            let b = strip_parens(parsed.clone());
            if a != b {
                problems.push(format!("{name} block {i}: R3 decodes `{}` but the corpus source is `{}`", a.source().replace('\n', " "), b.source().replace('\n', " ")));
            }
            let ext = bj["external_key"].as_str().map(|s| s.to_string());
            let dext = d.external.as_ref().map(|k| k.source());
            if ext != dext {
                problems.push(format!("{name} block {i}: external key {:?} vs corpus {:?}", dext, ext));
            }
            bump("r4.blocks");
            let want_version = bj["version"].as_u64().unwrap_or(0) as u32;
            let mine = versions::min_version(&d.contents, d.external.is_some());
            if mine != want_version || d.version != want_version {
                problems.push(format!("{name} block {i}: R4 computes version {mine}, declared {}, corpus {want_version}", d.version));
            }
            let syms: Vec<String> = bj["symbols"].as_array().map(|a| a.iter().map(|s| s.as_str().unwrap_or("").to_string()).collect()).unwrap_or_default();
            if syms != d.symbols {
                problems.push(format!("{name} block {i}: symbols {:?} vs corpus {:?}", d.symbols, syms));
            }
            rblocks.push(RBlock { block: d.contents.clone(), external: d.external.clone() });
        }
        if !parse_ok || rblocks.len() != blocks_json.len() {
            continue;
        }
        // R2: every validation of the testcase
        for (vname, v) in &validations {
            let code = v["authorizer_code"].as_str().unwrap_or("");
            let auth = match parse_authorizer(code) {
                Ok(a) => a,
                Err(_) => {
                    bump("r2.unparsable_authorizer");
                    continue;
                }
            };
            let want = match expected_decision(&v["result"]) {
                Some(d) => d,
                None => {
                    bump("r2.skipped_other_result");
                    continue;
                }
            };
            let ext = refdl::ExternTable::new();
            let mut w = refdl::World::new(&rblocks, &auth, &ext);
            let got = w.authorize();
            if let Decision::Error(refdl::EvalErr::Unsupported(_)) = &got {
                bump("r2.skipped_unsupported_operator");
                continue;
            }
            if w.error.as_ref().map(|e| matches!(e, refdl::EvalErr::Unsupported(_))).unwrap_or(false) {
                bump("r2.skipped_unsupported_operator");
                continue;
            }
            bump("r2.decisions");
            if got != want {
                problems.push(format!("{name} [{vname}]: R2 decides {:?}, the corpus {:?}", got, want));
                continue;
            }
            if matches!(got, Decision::Error(_)) {
                continue;
            }
            // the world: facts per origin
            let mut want_facts = Facts::new();
            let mut ok = true;
            for group in v["world"]["facts"].as_array().cloned().unwrap_or_default() {
                let origin: Origin = group["origin"]
                    .as_array()
                    .map(|a| a.iter().map(|o| o.as_u64().map(|x| x as usize).unwrap_or(AUTH)).collect())
                    .unwrap_or_default();
                for f in group["facts"].as_array().cloned().unwrap_or_default() {
                    match parse_fact(f.as_str().unwrap_or("")) {
                        Ok(p) => {
                            want_facts.insert((origin.clone(), p));
                        }
                        Err(_) => ok = false,
                    }
                }
            }
            if !ok {
                bump("r2.skipped_unparsable_world");
                continue;
            }
            bump("r2.worlds");
            if want_facts != w.facts {
                let missing: BTreeSet<_> = want_facts.difference(&w.facts).take(3).collect();
                let extra: BTreeSet<_> = w.facts.difference(&want_facts).take(3).collect();
                problems.push(format!("{name} [{vname}]: R2's world differs from the corpus: missing {:?} extra {:?}", missing, extra));
            }
        }
    }
    println!("validate-models: {:?}", n);
    if problems.is_empty() {
        println!("validate-models: reference models agree with the conformance corpus");
        0
    } else {
        for p in &problems {
            eprintln!("HARNESS: model validation: {p}");
        }
        2
    }
}
