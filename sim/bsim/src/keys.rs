//! Key pairs are named by (algorithm, seed); the bytes are a pure function of that name.
use crate::ast::{Alg, PubKey};
use crate::refchain::RKey;
use crate::rng::Rng;
use biscuit_auth::{builder::Algorithm, KeyPair};
use serde::{Deserialize, Serialize};

#[derive(Clone, Copy, Debug, PartialEq, Eq, PartialOrd, Ord, Hash, Serialize, Deserialize)]
pub struct KeySpec {
    pub alg: Alg,
    pub seed: u64,
}

impl KeySpec {
    pub fn keypair(&self) -> KeyPair {
        let mut rng = Rng::derive(self.seed, "keypair", 0);
        match self.alg {
            Alg::Ed25519 => KeyPair::new_with_rng(Algorithm::Ed25519, &mut rng),
            Alg::P256 => KeyPair::new_with_rng(Algorithm::Secp256r1, &mut rng),
        }
    }
    pub fn public(&self) -> PubKey {
        PubKey::from_lib(&self.keypair().public())
    }
    pub fn secret(&self) -> Vec<u8> {
        self.keypair().private().to_bytes().to_vec()
    }
    pub fn rkey(&self) -> RKey {
        let p = self.public();
        RKey {
            alg: p.alg,
            bytes: hex::decode(&p.hex).unwrap(),
        }
    }
}

pub fn rkey_of(p: &PubKey) -> RKey {
    RKey {
        alg: p.alg,
        bytes: hex::decode(&p.hex).unwrap(),
    }
}
