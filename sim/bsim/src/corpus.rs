//! The conformance corpus used as fixed inputs of the checks themselves (in addition to the
//! seeded search): what the *library* does on the 37 published tokens is compared with what the
//! corpus records. A disagreement here is a property violation (the models were validated against
//! the same corpus separately, see validate.rs); its replay file names the sample.
use crate::libeval::{self, Limits, Outcome};
use crate::refdl::{CheckId, Decision};
use crate::world::Violation;
use biscuit_auth::builder::AuthorizerBuilder;
use biscuit_auth::{Biscuit, UnverifiedBiscuit};
use serde_json::{json, Value};

fn expected(result: &Value) -> Option<Outcome> {
    if let Some(i) = result.get("Ok").and_then(|v| v.as_u64()) {
        return Some(Outcome::D(Decision::Allowed(i as usize)));
    }
    let err = result.get("Err")?;
    if let Some(e) = err.get("Execution") {
        return Some(Outcome::ExprError(e.as_str().unwrap_or("").to_string()));
    }
    let logic = err.get("FailedLogic")?;
    let checks = |v: &Value| -> Vec<CheckId> {
        v.as_array()
            .map(|a| {
                a.iter()
                    .map(|c| {
                        if let Some(b) = c.get("Block") {
                            CheckId::Block(b["block_id"].as_u64().unwrap_or(0) as usize, b["check_id"].as_u64().unwrap_or(0) as usize)
                        } else {
                            CheckId::Authorizer(c["Authorizer"]["check_id"].as_u64().unwrap_or(0) as usize)
                        }
                    })
                    .collect()
            })
            .unwrap_or_default()
    };
    if let Some(u) = logic.get("Unauthorized") {
        let (allow, policy) = if let Some(i) = u["policy"].get("Allow") {
            (true, i.as_u64().unwrap_or(0) as usize)
        } else {
            (false, u["policy"]["Deny"].as_u64().unwrap_or(0) as usize)
        };
        return Some(Outcome::D(Decision::Refused { allow, policy, checks: checks(&u["checks"]) }));
    }
    if let Some(n) = logic.get("NoMatchingPolicy") {
        return Some(Outcome::D(Decision::NoPolicy { checks: checks(&n["checks"]) }));
    }
    None
}

fn violation(property: &str, class: &str, sample: &str, validation: &str, detail: String) -> (Violation, Value) {
    (
        Violation {
            property: property.to_string(),
            class: class.to_string(),
            event: None,
            detail: format!("conformance sample {sample} [{validation}]: {detail}"),
            focus: None,
        },
        json!({ "sample": sample, "validation": validation }),
    )
}

/// what the library does on the corpus, for the clauses of `property` the corpus can decide;
/// `only` restricts to one sample (replay)
pub fn library_vs_corpus(repo: &str, property: &str, only: Option<&str>) -> Result<(Vec<(Violation, Value)>, u64), String> {
    let dir = format!("{repo}/biscuit-auth/samples");
    let text = std::fs::read_to_string(format!("{dir}/samples.json")).map_err(|e| e.to_string())?;
    let doc: Value = serde_json::from_str(&text).map_err(|e| e.to_string())?;
    let root_hex = doc["root_public_key"].as_str().unwrap_or("");
    let root = biscuit_auth::PublicKey::from_bytes(&hex::decode(root_hex).unwrap_or_default(), biscuit_auth::builder::Algorithm::Ed25519).map_err(|e| format!("{e:?}"))?;
    let mut out = Vec::new();
    let mut evaluated = 0u64;
    for t in doc["testcases"].as_array().cloned().unwrap_or_default() {
        let name = t["filename"].as_str().unwrap_or("").to_string();
        if let Some(o) = only {
            if o != name {
                continue;
            }
        }
        let bytes = std::fs::read(format!("{dir}/{name}")).map_err(|e| e.to_string())?;
        let validations = t["validations"].as_object().cloned().unwrap_or_default();
        let format_error = validations.values().any(|v| v["result"]["Err"].get("Format").is_some());
        let parsed = Biscuit::from(&bytes, root);
        let via_unverified = UnverifiedBiscuit::from(&bytes).map_err(|e| format!("{e:?}")).and_then(|u| u.verify(root).map_err(|e| format!("{e:?}")));
        match property {
            "C01" => {
                evaluated += 1;
                if format_error && (parsed.is_ok() || via_unverified.is_ok()) {
                    out.push(violation("C01", "corpus-invalid-token-accepted", &name, "", "a token the corpus records as forged / tampered is accepted".to_string()));
                }
            }
            "C02" | "C15" | "C12" | "C16" | "C04" | "C03" | "C08" | "C07" => {
                if format_error {
                    continue;
                }
                let has_tp = t["token"].as_array().map(|a| a.iter().any(|b| !b["external_key"].is_null())).unwrap_or(false);
                if property == "C07" && !has_tp {
                    continue;
                }
                let b = match (&parsed, &via_unverified) {
                    (Ok(b), Ok(_)) => b,
                    (a, c) => {
                        if property == "C02" || property == "C07" || property == "C12" {
                            evaluated += 1;
                            out.push(violation(
                                property,
                                "legit-token-rejected",
                                &name,
                                "",
                                format!("a valid published token is refused: from={:?} unverified+verify={:?}", a.as_ref().err(), c.as_ref().err()),
                            ));
                        }
                        continue;
                    }
                };
                let blocks = t["token"].as_array().cloned().unwrap_or_default();
                match property {
                    "C02" => {
                        evaluated += 1;
                        if b.to_vec().ok().as_deref() != Some(&bytes[..]) {
                            out.push(violation("C02", "roundtrip-bytes-differ", &name, "", "re-serialization differs from the published bytes".to_string()));
                        }
                        if b.block_count() != blocks.len() {
                            out.push(violation("C02", "roundtrip-view-differs", &name, "", format!("{} blocks, the corpus has {}", b.block_count(), blocks.len())));
                        }
                    }
                    "C15" => {
                        for (vname, v) in &validations {
                            if let Some(ids) = v["revocation_ids"].as_array() {
                                evaluated += 1;
                                let want: Vec<String> = ids.iter().map(|x| x.as_str().unwrap_or("").to_string()).collect();
                                let got: Vec<String> = b.revocation_identifiers().iter().map(hex::encode).collect();
                                if want != got {
                                    out.push(violation("C15", "revocation-id-changed", &name, vname, "revocation identifiers differ from the published ones".to_string()));
                                }
                            }
                        }
                    }
                    "C12" | "C16" | "C07" => {
                        for (i, bj) in blocks.iter().enumerate() {
                            evaluated += 1;
                            if property == "C16" {
                                let want = bj["version"].as_u64().unwrap_or(0) as u32;
                                match b.block_version(i) {
                                    Ok(v) if v == want => {}
                                    other => out.push(violation("C16", "version-differs-from-corpus", &name, "", format!("block {i}: version {:?}, corpus {want}", other))),
                                }
                            } else {
                                let want = bj["code"].as_str().unwrap_or("");
                                match b.print_block_source(i) {
                                    Ok(s) if s == want => {}
                                    other => out.push(violation(
                                        property,
                                        "references-resolve-wrong",
                                        &name,
                                        "",
                                        format!("block {i} prints {:?}, the published source is {:?}", other.map(|s| s.chars().take(200).collect::<String>()), want.chars().take(200).collect::<String>()),
                                    )),
                                }
                                let syms: Vec<String> = bj["symbols"].as_array().map(|a| a.iter().map(|s| s.as_str().unwrap_or("").to_string()).collect()).unwrap_or_default();
                                if b.block_symbols(i).ok() != Some(syms) {
                                    out.push(violation(property, "references-resolve-wrong", &name, "", format!("block {i}: symbols differ from the corpus")));
                                }
                            }
                        }
                    }
                    "C04" => {
                        for (vname, v) in &validations {
                            let want = match expected(&v["result"]) {
                                Some(w) => w,
                                None => continue,
                            };
                            let code = v["authorizer_code"].as_str().unwrap_or("");
                            // extern functions of the ffi sample are not provided here
                            if code.contains("extern::") || t["token"].to_string().contains("extern::") {
                                continue;
                            }
                            libeval::install(0);
                            let built = AuthorizerBuilder::new()
                                .code(code)
                                .map_err(|e| format!("{e:?}"))
                                .map(|ab| ab.limits(Limits::generous().to_lib()))
                                .and_then(|ab| ab.build(b).map_err(|e| format!("{e:?}")));
                            evaluated += 1;
                            match built {
                                Ok(mut a) => {
                                    let got = libeval::outcome_of(a.authorize());
                                    let same = match (&got, &want) {
                                        (Outcome::ExprError(g), Outcome::ExprError(w)) => g.contains(w.as_str()),
                                        (g, w) => g == w,
                                    };
                                    if !same {
                                        out.push(violation("C04", "decision-differs-from-corpus", &name, vname, format!("library {:?}, corpus {:?}", got, want)));
                                    }
                                }
                                Err(e) => out.push(violation("C04", "build-failed", &name, vname, format!("authorizer cannot be built: {e}"))),
                            }
                        }
                    }
                    _ => {}
                }
            }
            _ => {}
        }
    }
    Ok((out, evaluated))
}
