//! Independent decoder from the protobuf structures (prost, trusted) to the simulator AST,
//! resolving symbol and public-key indices the way the Biscuit specification states:
//! indices < 1024 are the default table, the rest index the token's (or block's) own table.
//! Shares nothing with biscuit-auth's format::convert.
use crate::ast::*;
use crate::refdl::{Facts, Origin, AUTH};
use biscuit_auth::format::schema;
use prost::Message;
use std::collections::{BTreeMap, BTreeSet};

pub const DEFAULT_SYMBOLS: [&str; 28] = [
    "read",
    "write",
    "resource",
    "operation",
    "right",
    "time",
    "role",
    "owner",
    "tenant",
    "namespace",
    "user",
    "team",
    "service",
    "admin",
    "email",
    "group",
    "member",
    "ip_address",
    "client",
    "client_ip",
    "domain",
    "path",
    "version",
    "cluster",
    "node",
    "hostname",
    "nonce",
    "query",
];

#[derive(Clone, Debug, Default)]
pub struct Tables {
    pub symbols: Vec<String>,
    pub keys: Vec<PubKey>,
}

impl Tables {
    pub fn sym(&self, i: u64) -> Result<String, String> {
        if i < 1024 {
            DEFAULT_SYMBOLS
                .get(i as usize)
                .map(|s| s.to_string())
                .ok_or(format!("unknown default symbol {i}"))
        } else {
            self.symbols
                .get((i - 1024) as usize)
                .cloned()
                .ok_or(format!("unknown symbol {i}"))
        }
    }
    pub fn key(&self, i: i64) -> Result<PubKey, String> {
        if i < 0 {
            return Err(format!("negative key id {i}"));
        }
        self.keys
            .get(i as usize)
            .cloned()
            .ok_or(format!("unknown public key {i}"))
    }
}

pub fn key_of(k: &schema::PublicKey) -> Result<PubKey, String> {
    let r = crate::refchain::parse_key(k)?;
    Ok(PubKey {
        alg: r.alg,
        hex: hex::encode(&r.bytes),
    })
}

pub fn term(t: &schema::TermV2, tb: &Tables) -> Result<Term, String> {
    use schema::term_v2::Content as C;
    Ok(match t.content.as_ref().ok_or("empty term")? {
        C::Variable(v) => Term::Var(tb.sym(*v as u64)?),
        C::Integer(i) => Term::Int(*i),
        C::String(s) => Term::Str(tb.sym(*s)?),
        C::Date(d) => Term::Date(*d),
        C::Bytes(b) => Term::Bytes(b.clone()),
        C::Bool(b) => Term::Bool(*b),
        C::Set(s) => Term::Set(
            s.set
                .iter()
                .map(|t| term(t, tb))
                .collect::<Result<BTreeSet<_>, _>>()?,
        ),
        C::Null(_) => Term::Null,
        C::Array(a) => Term::Array(
            a.array
                .iter()
                .map(|t| term(t, tb))
                .collect::<Result<Vec<_>, _>>()?,
        ),
        C::Map(m) => {
            let mut out = BTreeMap::new();
            for e in &m.entries {
                let k = match e.key.content.as_ref().ok_or("empty map key")? {
                    schema::map_key::Content::Integer(i) => MapKey::Int(*i),
                    schema::map_key::Content::String(s) => MapKey::Str(tb.sym(*s)?),
                };
                out.insert(k, term(&e.value, tb)?);
            }
            Term::Map(out)
        }
    })
}

pub fn pred(p: &schema::PredicateV2, tb: &Tables) -> Result<Pred, String> {
    Ok(Pred {
        name: tb.sym(p.name)?,
        terms: p
            .terms
            .iter()
            .map(|t| term(t, tb))
            .collect::<Result<Vec<_>, _>>()?,
    })
}

fn unop(u: &schema::OpUnary, tb: &Tables) -> Result<UnOp, String> {
    Ok(match u.kind {
        0 => UnOp::Negate,
        1 => UnOp::Parens,
        2 => UnOp::Length,
        3 => UnOp::TypeOf,
        4 => UnOp::Ffi(tb.sym(u.ffi_name.ok_or("ffi without name")?)?),
        k => return Err(format!("unknown unary {k}")),
    })
}

fn binop(b: &schema::OpBinary, tb: &Tables) -> Result<BinOp, String> {
    Ok(match b.kind {
        0 => BinOp::Lt,
        1 => BinOp::Gt,
        2 => BinOp::Le,
        3 => BinOp::Ge,
        4 => BinOp::Eq,
        5 => BinOp::Contains,
        6 => BinOp::Prefix,
        7 => BinOp::Suffix,
        8 => BinOp::Regex,
        9 => BinOp::Add,
        10 => BinOp::Sub,
        11 => BinOp::Mul,
        12 => BinOp::Div,
        13 => BinOp::And,
        14 => BinOp::Or,
        15 => BinOp::Intersection,
        16 => BinOp::Union,
        17 => BinOp::BitAnd,
        18 => BinOp::BitOr,
        19 => BinOp::BitXor,
        20 => BinOp::Ne,
        21 => BinOp::HEq,
        22 => BinOp::HNe,
        23 => BinOp::LazyAnd,
        24 => BinOp::LazyOr,
        25 => BinOp::All,
        26 => BinOp::Any,
        27 => BinOp::Get,
        28 => BinOp::Ffi(tb.sym(b.ffi_name.ok_or("ffi without name")?)?),
        k => return Err(format!("unknown binary {k}")),
    })
}

pub fn expr(ops: &[schema::Op], tb: &Tables) -> Result<Expr, String> {
    use schema::op::Content as C;
    let mut stack: Vec<Expr> = Vec::new();
    for op in ops {
        match op.content.as_ref().ok_or("empty op")? {
            C::Value(t) => stack.push(Expr::Value(term(t, tb)?)),
            C::Unary(u) => {
                let e = stack.pop().ok_or("stack underflow")?;
                stack.push(Expr::Unary(unop(u, tb)?, Box::new(e)));
            }
            C::Binary(b) => {
                let r = stack.pop().ok_or("stack underflow")?;
                let l = stack.pop().ok_or("stack underflow")?;
                stack.push(Expr::Binary(binop(b, tb)?, Box::new(l), Box::new(r)));
            }
            C::Closure(c) => {
                let params = c
                    .params
                    .iter()
                    .map(|p| tb.sym(*p as u64))
                    .collect::<Result<Vec<_>, _>>()?;
                stack.push(Expr::Closure(params, Box::new(expr(&c.ops, tb)?)));
            }
        }
    }
    if stack.len() != 1 {
        return Err("malformed expression".to_string());
    }
    Ok(stack.pop().unwrap())
}

pub fn scope(s: &schema::Scope, tb: &Tables) -> Result<Scope, String> {
    Ok(match s.content.as_ref().ok_or("empty scope")? {
        schema::scope::Content::ScopeType(0) => Scope::Authority,
        schema::scope::Content::ScopeType(1) => Scope::Previous,
        schema::scope::Content::ScopeType(k) => return Err(format!("unknown scope type {k}")),
        schema::scope::Content::PublicKey(i) => Scope::Key(tb.key(*i)?),
    })
}

pub fn rule(r: &schema::RuleV2, tb: &Tables) -> Result<Rule, String> {
    Ok(Rule {
        head: pred(&r.head, tb)?,
        body: r
            .body
            .iter()
            .map(|p| pred(p, tb))
            .collect::<Result<Vec<_>, _>>()?,
        exprs: r
            .expressions
            .iter()
            .map(|e| expr(&e.ops, tb))
            .collect::<Result<Vec<_>, _>>()?,
        scopes: r
            .scope
            .iter()
            .map(|s| scope(s, tb))
            .collect::<Result<Vec<_>, _>>()?,
    })
}

pub fn check(c: &schema::CheckV2, tb: &Tables) -> Result<Check, String> {
    Ok(Check {
        kind: match c.kind {
            None | Some(0) => CheckKind::One,
            Some(1) => CheckKind::All,
            Some(2) => CheckKind::Reject,
            Some(k) => return Err(format!("unknown check kind {k}")),
        },
        queries: c
            .queries
            .iter()
            .map(|q| rule(q, tb))
            .collect::<Result<Vec<_>, _>>()?,
    })
}

pub fn policy(p: &schema::Policy, tb: &Tables) -> Result<Policy, String> {
    Ok(Policy {
        kind: match p.kind {
            0 => PolicyKind::Allow,
            1 => PolicyKind::Deny,
            k => return Err(format!("unknown policy kind {k}")),
        },
        queries: p
            .queries
            .iter()
            .map(|q| rule(q, tb))
            .collect::<Result<Vec<_>, _>>()?,
    })
}

/// rule heads of checks and policies are placeholders: normalise them for comparison
pub fn normalise_block(mut b: Block) -> Block {
    for c in b.checks.iter_mut() {
        for q in c.queries.iter_mut() {
            q.head = query_head();
        }
    }
    b
}

pub fn block_contents(b: &schema::Block, tb: &Tables) -> Result<Block, String> {
    Ok(normalise_block(Block {
        facts: b
            .facts_v2
            .iter()
            .map(|f| pred(&f.predicate, tb))
            .collect::<Result<Vec<_>, _>>()?,
        rules: b
            .rules_v2
            .iter()
            .map(|r| rule(r, tb))
            .collect::<Result<Vec<_>, _>>()?,
        checks: b
            .checks_v2
            .iter()
            .map(|c| check(c, tb))
            .collect::<Result<Vec<_>, _>>()?,
        scopes: b
            .scope
            .iter()
            .map(|s| scope(s, tb))
            .collect::<Result<Vec<_>, _>>()?,
        context: b.context.clone(),
    }))
}

#[derive(Clone, Debug)]
pub struct DecodedBlock {
    pub contents: Block,
    pub version: u32,
    pub external: Option<PubKey>,
    pub symbols: Vec<String>,
    pub keys: Vec<PubKey>,
}

/// R3: decodes every block of a serialized token with the tables the specification gives it:
/// first-party blocks share one cumulative symbol table and one cumulative key table; a
/// third-party block sees only its own tables and contributes nothing to the shared ones.
pub fn decode_token(bytes: &[u8]) -> Result<Vec<DecodedBlock>, String> {
    let data = schema::Biscuit::decode(bytes).map_err(|e| e.to_string())?;
    let mut shared = Tables::default();
    let mut out = Vec::new();
    let all = std::iter::once(&data.authority).chain(data.blocks.iter());
    for (i, sb) in all.enumerate() {
        let b = schema::Block::decode(&sb.block[..]).map_err(|e| format!("block {i}: {e}"))?;
        let own_keys = b
            .public_keys
            .iter()
            .map(key_of)
            .collect::<Result<Vec<_>, _>>()?;
        let external = match &sb.external_signature {
            None => None,
            Some(e) => Some(key_of(&e.public_key)?),
        };
        let tables = if external.is_some() {
            Tables {
                symbols: b.symbols.clone(),
                keys: own_keys.clone(),
            }
        } else {
            shared.symbols.extend(b.symbols.iter().cloned());
            shared.keys.extend(own_keys.iter().cloned());
            shared.clone()
        };
        out.push(DecodedBlock {
            contents: block_contents(&b, &tables).map_err(|e| format!("block {i}: {e}"))?,
            version: b.version.unwrap_or(0),
            external,
            symbols: b.symbols.clone(),
            keys: own_keys,
        });
    }
    Ok(out)
}

#[derive(Clone, Debug, PartialEq, Eq)]
pub struct DecodedSnapshot {
    pub facts: Facts,
    pub blocks: Vec<(Block, Option<PubKey>, u32)>,
    pub authorizer: Block,
    pub policies: Vec<Policy>,
    pub iterations: u64,
    pub execution_time: u64,
    pub limits: (u64, u64, u64),
}

pub fn decode_snapshot(bytes: &[u8]) -> Result<DecodedSnapshot, String> {
    let s = schema::AuthorizerSnapshot::decode(bytes).map_err(|e| e.to_string())?;
    let tb = Tables {
        symbols: s.world.symbols.clone(),
        keys: s
            .world
            .public_keys
            .iter()
            .map(key_of)
            .collect::<Result<Vec<_>, _>>()?,
    };
    let mut facts = Facts::new();
    for g in &s.world.generated_facts {
        let mut origin = Origin::new();
        for o in &g.origins {
            match o.content.as_ref().ok_or("empty origin")? {
                schema::origin::Content::Authorizer(_) => {
                    origin.insert(AUTH);
                }
                schema::origin::Content::Origin(i) => {
                    origin.insert(*i as usize);
                }
            }
        }
        for f in &g.facts {
            facts.insert((origin.clone(), pred(&f.predicate, &tb)?));
        }
    }
    let snap_block = |b: &schema::SnapshotBlock| -> Result<Block, String> {
        Ok(normalise_block(Block {
            facts: b
                .facts_v2
                .iter()
                .map(|f| pred(&f.predicate, &tb))
                .collect::<Result<Vec<_>, _>>()?,
            rules: b
                .rules_v2
                .iter()
                .map(|r| rule(r, &tb))
                .collect::<Result<Vec<_>, _>>()?,
            checks: b
                .checks_v2
                .iter()
                .map(|c| check(c, &tb))
                .collect::<Result<Vec<_>, _>>()?,
            scopes: b
                .scope
                .iter()
                .map(|s| scope(s, &tb))
                .collect::<Result<Vec<_>, _>>()?,
            context: b.context.clone(),
        }))
    };
    let mut blocks = Vec::new();
    for b in &s.world.blocks {
        let ext = match &b.external_key {
            None => None,
            Some(k) => Some(key_of(k)?),
        };
        blocks.push((snap_block(b)?, ext, b.version.unwrap_or(0)));
    }
    let mut policies = Vec::new();
    for p in &s.world.authorizer_policies {
        let mut p = policy(p, &tb)?;
        for q in p.queries.iter_mut() {
            q.head = query_head();
        }
        policies.push(p);
    }
    Ok(DecodedSnapshot {
        facts,
        blocks,
        authorizer: snap_block(&s.world.authorizer_block)?,
        policies,
        iterations: s.world.iterations,
        execution_time: s.execution_time,
        limits: (s.limits.max_facts, s.limits.max_iterations, s.limits.max_time),
    })
}
