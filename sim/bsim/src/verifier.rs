//! Verifier-side monitors that re-evaluate one (token, authorizer) pair many times:
//! C11 (determinism over hash keys, insertion orders, clone, rebuild, restore) and
//! C13 (crash at every call boundary of the verifier's lifecycle, snapshot as durable state).
use crate::ast::{self, Rule};
use crate::libeval::{self, Limits, Outcome};
use crate::refdl;
use crate::rng::Rng;
use crate::wire;
use crate::world::{Run, VerifierSpec};
use biscuit_auth::builder::AuthorizerBuilder;
use biscuit_auth::{Authorizer, Biscuit};
use std::collections::BTreeSet;

fn permuted(auth: &ast::Authorizer, seed: u64) -> ast::Authorizer {
    let mut a = auth.clone();
    let mut rng = Rng::derive(seed, "perm", 0);
    rng.shuffle(&mut a.facts);
    rng.shuffle(&mut a.rules);
    a
}

fn signature(outcome: &Outcome, queries: &[(Result<BTreeSet<ast::Pred>, String>, Result<BTreeSet<ast::Pred>, String>)]) -> String {
    format!("{:?} | {:?}", outcome, queries)
}

fn run_all(a: &mut Authorizer, queries: &[Rule]) -> String {
    let o = libeval::outcome_of(a.authorize());
    let mut qs = Vec::new();
    for q in queries {
        qs.push((libeval::query(a, q, false), libeval::query(a, q, true)));
    }
    signature(&o, &qs)
}

#[derive(Clone, Copy, Debug, PartialEq, Eq)]
enum Step {
    Run,
    Authorize,
    Query(usize),
    QueryAll(usize),
}

fn do_step(a: &mut Authorizer, step: Step, queries: &[Rule]) -> String {
    // a panic inside the library is C09/C10's business; here it is one more observable result
    match std::panic::catch_unwind(std::panic::AssertUnwindSafe(|| do_step_inner(a, step, queries))) {
        Ok(s) => s,
        Err(_) => format!("panic at {}", crate::panic_location()),
    }
}

fn do_step_inner(a: &mut Authorizer, step: Step, queries: &[Rule]) -> String {
    match step {
        Step::Run => match a.run() {
            Ok(_) => "run:ok".to_string(),
            Err(e) => format!("run:{e:?}"),
        },
        Step::Authorize => format!("authorize:{:?}", libeval::outcome_of(a.authorize())),
        Step::Query(i) => match queries.get(i) {
            Some(q) => format!("query:{:?}", libeval::query(a, q, false)),
            None => "query:none".to_string(),
        },
        Step::QueryAll(i) => match queries.get(i) {
            Some(q) => format!("query_all:{:?}", libeval::query(a, q, true)),
            None => "query_all:none".to_string(),
        },
    }
}

fn has_key_scope(auth: &ast::Authorizer) -> bool {
    let hit = |s: &Vec<ast::Scope>| s.iter().any(|x| matches!(x, ast::Scope::Key(_)));
    hit(&auth.scopes)
        || auth.rules.iter().any(|r| hit(&r.scopes))
        || auth.checks.iter().any(|c| c.queries.iter().any(|q| hit(&q.scopes)))
        || auth.policies.iter().any(|p| p.queries.iter().any(|q| hit(&q.scopes)))
}

impl<'a> Run<'a> {
    pub fn check_c11(&mut self, biscuit: &Biscuit, token: usize, verifier: usize, spec: &VerifierSpec) {
        // one more query: the product of the two most populated predicates, so that answers
        // larger than the fact store (and than a small fact budget) are part of the outcome
        let mut spec = spec.clone();
        {
            let mut count: std::collections::BTreeMap<(String, usize), usize> = Default::default();
            let ghost_facts = self.slots[token].ghost.iter().flat_map(|g| g.ast.facts.iter());
            for f in ghost_facts.chain(spec.authorizer.facts.iter()).filter(|f| !f.terms.is_empty()) {
                *count.entry((f.name.clone(), f.terms.len())).or_insert(0) += 1;
            }
            let mut by: Vec<((String, usize), usize)> = count.into_iter().collect();
            by.sort_by(|a, b| b.1.cmp(&a.1).then(a.0.cmp(&b.0)));
            if let Some(((n1, a1), _)) = by.first().cloned() {
                let (n2, a2) = by.get(1).map(|x| x.0.clone()).unwrap_or((n1.clone(), a1));
                let v1: Vec<ast::Term> = (0..a1).map(|i| ast::Term::Var(format!("l{i}"))).collect();
                let v2: Vec<ast::Term> = (0..a2).map(|i| ast::Term::Var(format!("r{i}"))).collect();
                spec.queries.push(Rule {
                    head: ast::Pred { name: "q".to_string(), terms: v1.iter().chain(v2.iter()).cloned().collect() },
                    body: vec![ast::Pred { name: n1, terms: v1 }, ast::Pred { name: n2, terms: v2 }],
                    exprs: vec![],
                    scopes: vec![],
                });
            }
        }
        let spec = &spec;
        let mut seen: BTreeSet<String> = BTreeSet::new();
        let mut how: Vec<(String, String)> = Vec::new();
        let n = self.mon.hash_keys.max(2);
        for k in 0..n {
            let hk = self.scn.hash_key.wrapping_add(k as u64);
            // fresh build, authorizer as written / with facts and rules inserted in another order
            for perm in [false, true] {
                let auth = if perm { permuted(&spec.authorizer, hk) } else { spec.authorizer.clone() };
                libeval::install(hk);
                let mut evaluated: Option<Authorizer> = None;
                let sig = match libeval::build_authorizer(Some(biscuit), &auth, spec.limits) {
                    Ok(mut a) => {
                        let s = run_all(&mut a, &spec.queries);
                        evaluated = Some(a);
                        s
                    }
                    Err(e) => format!("build:{e}"),
                };
                how.push((format!("hash_key={hk} permuted={perm}"), sig.clone()));
                seen.insert(sig);
                self.stats.oracle_evals += 1;
                // the evaluated authorizer, saved under this hash order and restored under
                // another one, is the same authorizer
                if let (Some(a), false) = (evaluated, perm) {
                    if let Ok(bytes) = a.to_raw_snapshot() {
                        libeval::install(hk.wrapping_add(0x5eed));
                        if let Ok(mut r) = Authorizer::from_raw_snapshot(&bytes) {
                            let sig = run_all(&mut r, &spec.queries);
                            how.push((format!("hash_key={hk} evaluated, snapshot, restore"), sig.clone()));
                            seen.insert(sig);
                            self.stats.oracle_evals += 1;
                            self.stats.bump("c11.evaluated_snapshot_restored");
                        }
                    }
                }
            }
        }
        // clone, and snapshot -> restore, under the base key
        let hk = self.scn.hash_key;
        libeval::install(hk);
        if let Ok(a) = libeval::build_authorizer(Some(biscuit), &spec.authorizer, spec.limits) {
            let mut c = a.clone();
            let sig = run_all(&mut c, &spec.queries);
            how.push(("clone".to_string(), sig.clone()));
            seen.insert(sig);
            if let Ok(bytes) = a.to_raw_snapshot() {
                libeval::install(hk.wrapping_add(1));
                if let Ok(mut r) = Authorizer::from_raw_snapshot(&bytes) {
                    let sig = run_all(&mut r, &spec.queries);
                    how.push(("snapshot-restore".to_string(), sig.clone()));
                    seen.insert(sig);
                } else {
                    self.stats.bump("c11.restore_failed");
                }
            }
            self.stats.oracle_evals += 2;
        }
        // asking the same authorizer again, or a clone taken after the first answer, gives the
        // same answer (an expression error is compared as such: which error is the known race)
        libeval::install(hk);
        if let Ok(mut a) = libeval::build_authorizer(Some(biscuit), &spec.authorizer, spec.limits) {
            let norm = |o: Outcome| match o {
                Outcome::ExprError(_) => "ExprError".to_string(),
                o => format!("{o:?}"),
            };
            let first = norm(libeval::outcome_of(a.authorize()));
            let mut c = a.clone();
            let second = norm(libeval::outcome_of(a.authorize()));
            let cloned = norm(libeval::outcome_of(c.authorize()));
            self.stats.oracle_evals += 1;
            if first != second || first != cloned {
                self.violate(
                    "C11",
                    "nondeterministic-outcome",
                    format!(
                        "slot {token} verifier {verifier}: cause=second-call-differs; authorize() answers {first}, asked again the same authorizer answers {second}, a clone taken after the first answer {cloned}"
                    ),
                );
            }
        }
        self.stats.trace.push(format!("c11:{}", seen.len()));
        if seen.len() > 1 {
            // structural cause, computed by the reference evaluator
            let blocks = self.rblocks(token);
            let ext = refdl::ExternTable::new();
            let mut w = refdl::World::new(&blocks, &spec.authorizer, &ext);
            let d = w.authorize();
            let mut qerr = false;
            for q in &spec.queries {
                if w.query(q, false).is_err() || w.query(q, true).is_err() {
                    qerr = true;
                }
            }
            // an expression of a rule that fails for some binding makes the evaluation fail under
            // every order (every binding of a rule is evaluated): a plain decision next to it
            // is not the first-match race of checks and policies
            let decided_somewhere = seen.iter().any(|s| s.starts_with("D("));
            let cause = if w.rule_error.is_some() && decided_somewhere {
                "cause=rule-error-lost-under-some-orders"
            } else if matches!(d, refdl::Decision::Error(_)) || w.error.is_some() || qerr {
                "cause=binding-order-race"
            } else {
                "cause=unknown"
            };
            let only_error_vs_value = seen.iter().all(|s| s.contains("ExprError") || s.contains("Execution") || s.starts_with("D("))
                && seen.iter().any(|s| s.contains("ExprError") || s.contains("Execution"));
            let mut detail = format!(
                "slot {token} verifier {verifier}: {} distinct outcomes for one (token, authorizer, limits); {cause}{}; ",
                seen.len(),
                if only_error_vs_value { " (some binding makes an expression fail, another one succeeds: the first one the hash order presents decides)" } else { "" }
            );
            let mut shown = BTreeSet::new();
            for (h, s) in &how {
                if shown.insert(s.clone()) {
                    let short: String = s.chars().take(160).collect();
                    detail.push_str(&format!("[{h}] {short} ;; "));
                }
            }
            self.violate("C11", "nondeterministic-outcome", detail);
        }
    }

    fn lifecycle(&mut self, biscuit: Option<&Biscuit>, spec: &VerifierSpec, limits: Limits, label: &str, token: usize, verifier: usize) {
        let steps = [Step::Run, Step::Authorize, Step::Query(0), Step::QueryAll(1), Step::Authorize];
        let hk = self.scn.hash_key;
        for crash in 0..=steps.len() {
            libeval::install(hk);
            let mut a = match libeval::build_authorizer(biscuit, &spec.authorizer, limits) {
                Ok(a) => a,
                Err(_) => {
                    self.stats.bump("c13.skipped_build_failed");
                    return;
                }
            };
            let mut before = Vec::new();
            for s in &steps[..crash] {
                before.push(do_step(&mut a, *s, &spec.queries));
            }
            self.stats.bump("fault.verifier_crash");
            if before.iter().any(|s| s.contains("RunLimit")) {
                self.stats.bump("c13.crash_after_failed_run");
            }
            // the snapshot is the only thing that survives
            let restored = if crash % 2 == 0 {
                a.to_raw_snapshot()
                    .map_err(|e| format!("snapshot: {e:?}"))
                    .and_then(|b| Authorizer::from_raw_snapshot(&b).map_err(|e| format!("{e:?}")))
            } else {
                a.to_base64_snapshot()
                    .map_err(|e| format!("snapshot: {e:?}"))
                    .and_then(|b| Authorizer::from_base64_snapshot(&b).map_err(|e| format!("{e:?}")))
            };
            self.stats.oracle_evals += 1;
            let mut b = match restored {
                Ok(b) => b,
                Err(e) => {
                    let tp = self.slots[token].ghost.iter().any(|g| g.external.is_some());
                    self.violate(
                        "C13",
                        "restore-failed",
                        format!(
                            "slot {token} verifier {verifier} ({label}) crash after {crash} calls {:?}: the snapshot cannot be restored: {e}; token-has-third-party-block={tp}",
                            &steps[..crash]
                        ),
                    );
                    return;
                }
            };
            if b.limits() != a.limits() {
                self.violate("C13", "restore-differs", format!("slot {token} verifier {verifier} ({label}): limits differ after restore"));
                return;
            }
            let mut out_a = Vec::new();
            let mut out_b = Vec::new();
            for s in &steps[crash..] {
                out_a.push(do_step(&mut a, *s, &spec.queries));
                out_b.push(do_step(&mut b, *s, &spec.queries));
            }
            self.stats.oracle_evals += 1;
            if out_a != out_b {
                let i = out_a.iter().zip(out_b.iter()).position(|(x, y)| x != y).unwrap_or(0);
                self.violate(
                    "C13",
                    "restore-differs",
                    format!(
                        "slot {token} verifier {verifier} ({label}) crash after {crash} calls: call {:?} gives {} on the survivor and {} on the restored authorizer",
                        steps[crash + i],
                        out_a[i].chars().take(200).collect::<String>(),
                        out_b[i].chars().take(200).collect::<String>()
                    ),
                );
                return;
            }
            // same content, read through the independent decoder
            let da = a.to_raw_snapshot().map_err(|e| format!("{e:?}")).and_then(|b| wire::decode_snapshot(&b));
            let db = b.to_raw_snapshot().map_err(|e| format!("{e:?}")).and_then(|b| wire::decode_snapshot(&b));
            self.stats.oracle_evals += 1;
            match (da, db) {
                (Ok(x), Ok(y)) => {
                    if x != y {
                        let what = if x.facts != y.facts {
                            "facts per origin"
                        } else if x.blocks != y.blocks {
                            "token blocks"
                        } else if x.authorizer != y.authorizer {
                            "authorizer facts/rules/checks"
                        } else if x.policies != y.policies {
                            "policies"
                        } else if x.limits != y.limits {
                            "limits"
                        } else if x.iterations != y.iterations {
                            "iterations"
                        } else {
                            "execution time"
                        };
                        self.violate(
                            "C13",
                            "restore-differs",
                            format!("slot {token} verifier {verifier} ({label}) crash after {crash} calls: {what} differ between survivor and restored authorizer"),
                        );
                        return;
                    }
                }
                (x, y) => {
                    self.violate(
                        "C13",
                        "snapshot-undecodable",
                        format!("slot {token} verifier {verifier} ({label}): {:?} / {:?}", x.err(), y.err()),
                    );
                    return;
                }
            }
        }
    }

    pub fn check_c13(&mut self, biscuit: &Biscuit, token: usize, verifier: usize, spec: &VerifierSpec) {
        self.lifecycle(Some(biscuit), spec, spec.limits, "generous limits", token, verifier);
        // the same authorizer without any token (build_unauthenticated)
        self.lifecycle(None, spec, spec.limits, "no token", token, verifier);
        let tight = Limits {
            max_facts: spec.limits.max_facts,
            max_iterations: 1,
            max_time_ns: spec.limits.max_time_ns,
        };
        self.lifecycle(Some(biscuit), spec, tight, "max_iterations=1", token, verifier);
        self.stats.trace.push("c13".to_string());

        // authorizer builder snapshot
        libeval::install(self.scn.hash_key);
        if let Ok(ab) = spec.authorizer.to_builder() {
            let ab = ab.limits(spec.limits.to_lib());
            self.stats.oracle_evals += 1;
            match ab
                .to_raw_snapshot()
                .map_err(|e| format!("{e:?}"))
                .and_then(|b| AuthorizerBuilder::from_raw_snapshot(&b).map_err(|e| format!("{e:?}")))
            {
                Ok(ab2) => {
                    let r1 = ab.clone().build(biscuit).map(|mut a| run_all(&mut a, &spec.queries)).map_err(|e| format!("{e:?}"));
                    let r2 = ab2.build(biscuit).map(|mut a| run_all(&mut a, &spec.queries)).map_err(|e| format!("{e:?}"));
                    if r1 != r2 {
                        self.violate(
                            "C13",
                            "restore-differs",
                            format!("slot {token} verifier {verifier}: authorizer builder restored from its snapshot behaves differently: {:?} vs {:?}", r1, r2),
                        );
                    }
                }
                Err(e) => self.violate(
                    "C13",
                    "restore-failed",
                    format!("slot {token} verifier {verifier}: authorizer builder snapshot cannot be restored: {e}"),
                ),
            }
        }
        // saved policies (no token data)
        libeval::install(self.scn.hash_key);
        if let Ok(mut direct) = libeval::build_authorizer(None, &spec.authorizer, spec.limits) {
            self.stats.oracle_evals += 1;
            let key_scope = has_key_scope(&spec.authorizer);
            let saved = direct
                .save()
                .map_err(|e| format!("save: {e:?}"))
                .and_then(|p| p.serialize().map_err(|e| format!("serialize: {e:?}")));
            match saved.and_then(|bytes| Authorizer::from(&bytes).map_err(|e| format!("{e:?}"))) {
                Ok(mut loaded) => {
                    // limits are not part of saved policies: compare under the same ones
                    let r1 = libeval::outcome_of(direct.authorize_with_limits(spec.limits.to_lib()));
                    let r2 = libeval::outcome_of(loaded.authorize_with_limits(spec.limits.to_lib()));
                    if r1 != r2 {
                        self.violate(
                            "C13",
                            "restore-differs",
                            format!("verifier {verifier}: policies loaded from their serialized form authorize differently: {:?} vs {:?}; policies-with-key-scope={key_scope}", r1, r2),
                        );
                    }
                }
                Err(e) => self.violate(
                    "C13",
                    "restore-failed",
                    format!("verifier {verifier}: saved policies cannot be loaded: {e}; policies-with-key-scope={key_scope}"),
                ),
            }
        }
    }
}
