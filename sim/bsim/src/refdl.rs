//! R2 — reference evaluator for scoped Datalog (naive bottom-up over (fact, origin-set) pairs).
//! Works on the simulator AST only. Written from the property statements / Biscuit semantics,
//! independently of the library's engine: no symbol tables, no hash containers, no iterators
//! shared with it.
use crate::ast::*;
use std::collections::{BTreeMap, BTreeSet};

pub const AUTH: usize = usize::MAX;
pub type Origin = BTreeSet<usize>;
pub type Facts = BTreeSet<(Origin, Pred)>;
pub type Bindings = BTreeMap<String, Term>;

#[derive(Clone, Debug, PartialEq, Eq, PartialOrd, Ord)]
pub enum EvalErr {
    Overflow,
    DivideByZero,
    InvalidType,
    UnknownVariable(String),
    ShadowedVariable,
    Extern(String),
    /// operator outside the subset the reference implements (regex, undefined extern...)
    Unsupported(String),
}

pub type ExternTable = BTreeMap<String, fn(&Term, Option<&Term>) -> Result<Term, String>>;

#[derive(Clone, Debug)]
pub struct RBlock {
    pub block: Block,
    pub external: Option<PubKey>,
}

#[derive(Clone, Debug, PartialEq, Eq, PartialOrd, Ord)]
pub enum CheckId {
    Authorizer(usize),
    Block(usize, usize),
}

#[derive(Clone, Debug, PartialEq, Eq, PartialOrd, Ord)]
pub enum Decision {
    Allowed(usize),
    /// a policy matched (allow or deny) but the request is refused
    Refused {
        allow: bool,
        policy: usize,
        checks: Vec<CheckId>,
    },
    NoPolicy {
        checks: Vec<CheckId>,
    },
    /// an expression failed somewhere; the reference does not say which one is reported
    Error(EvalErr),
}

// ---------------------------------------------------------------------------------------------
// expressions

fn type_name(t: &Term) -> &'static str {
    match t {
        Term::Var(_) => "variable",
        Term::Int(_) => "integer",
        Term::Str(_) => "string",
        Term::Date(_) => "date",
        Term::Bytes(_) => "bytes",
        Term::Bool(_) => "bool",
        Term::Set(_) => "set",
        Term::Null => "null",
        Term::Array(_) => "array",
        Term::Map(_) => "map",
    }
}

fn same_type(a: &Term, b: &Term) -> bool {
    type_name(a) == type_name(b)
}

pub fn eval(e: &Expr, env: &Bindings, ext: &ExternTable) -> Result<Term, EvalErr> {
    match e {
        Expr::Value(Term::Var(v)) => env
            .get(v)
            .cloned()
            .ok_or_else(|| EvalErr::UnknownVariable(v.clone())),
        Expr::Value(t) => Ok(t.clone()),
        Expr::Closure(_, _) => Err(EvalErr::InvalidType),
        Expr::Unary(op, inner) => {
            let v = eval(inner, env, ext)?;
            eval_unary(op, v, ext)
        }
        Expr::Binary(op, l, r) => {
            let lv = eval(l, env, ext)?;
            if let Expr::Closure(params, body) = &**r {
                if params.iter().any(|p| env.contains_key(p)) {
                    return Err(EvalErr::ShadowedVariable);
                }
                return eval_closure(op, lv, params, body, env, ext);
            }
            let rv = eval(r, env, ext)?;
            eval_binary(op, lv, rv, ext)
        }
    }
}

fn eval_unary(op: &UnOp, v: Term, ext: &ExternTable) -> Result<Term, EvalErr> {
    match (op, v) {
        (UnOp::Negate, Term::Bool(b)) => Ok(Term::Bool(!b)),
        (UnOp::Parens, v) => Ok(v),
        (UnOp::Length, Term::Str(s)) => Ok(Term::Int(s.len() as i64)),
        (UnOp::Length, Term::Bytes(b)) => Ok(Term::Int(b.len() as i64)),
        (UnOp::Length, Term::Set(s)) => Ok(Term::Int(s.len() as i64)),
        (UnOp::Length, Term::Array(a)) => Ok(Term::Int(a.len() as i64)),
        (UnOp::Length, Term::Map(m)) => Ok(Term::Int(m.len() as i64)),
        (UnOp::TypeOf, v) => Ok(Term::Str(type_name(&v).to_string())),
        (UnOp::Ffi(name), v) => match ext.get(name) {
            None => Err(EvalErr::Unsupported(format!("extern {name}"))),
            Some(f) => f(&v, None).map_err(EvalErr::Extern),
        },
        _ => Err(EvalErr::InvalidType),
    }
}

fn truth(t: Term) -> Result<bool, EvalErr> {
    match t {
        Term::Bool(b) => Ok(b),
        _ => Err(EvalErr::InvalidType),
    }
}

fn eval_closure(
    op: &BinOp,
    left: Term,
    params: &[String],
    body: &Expr,
    env: &Bindings,
    ext: &ExternTable,
) -> Result<Term, EvalErr> {
    match (op, left, params.len()) {
        (BinOp::LazyOr, Term::Bool(true), 0) => Ok(Term::Bool(true)),
        (BinOp::LazyOr, Term::Bool(false), 0) => eval(body, env, ext),
        (BinOp::LazyAnd, Term::Bool(false), 0) => Ok(Term::Bool(false)),
        (BinOp::LazyAnd, Term::Bool(true), 0) => eval(body, env, ext),
        (BinOp::All, coll, 1) | (BinOp::Any, coll, 1) => {
            let items: Vec<Term> = match coll {
                Term::Set(s) => s.into_iter().collect(),
                Term::Array(a) => a,
                Term::Map(m) => m
                    .into_iter()
                    .map(|(k, v)| {
                        Term::Array(vec![
                            match k {
                                MapKey::Int(i) => Term::Int(i),
                                MapKey::Str(s) => Term::Str(s),
                            },
                            v,
                        ])
                    })
                    .collect(),
                _ => return Err(EvalErr::InvalidType),
            };
            let want_all = *op == BinOp::All;
            for item in items {
                let mut inner = env.clone();
                inner.insert(params[0].clone(), item);
                let b = truth(eval(body, &inner, ext)?)?;
                if want_all && !b {
                    return Ok(Term::Bool(false));
                }
                if !want_all && b {
                    return Ok(Term::Bool(true));
                }
            }
            Ok(Term::Bool(want_all))
        }
        _ => Err(EvalErr::InvalidType),
    }
}

fn eval_binary(op: &BinOp, l: Term, r: Term, ext: &ExternTable) -> Result<Term, EvalErr> {
    use BinOp::*;
    use Term::*;
    match (op, l, r) {
        // ordering: integers and dates
        (Lt, Int(a), Int(b)) => Ok(Bool(a < b)),
        (Gt, Int(a), Int(b)) => Ok(Bool(a > b)),
        (Le, Int(a), Int(b)) => Ok(Bool(a <= b)),
        (Ge, Int(a), Int(b)) => Ok(Bool(a >= b)),
        (Lt, Date(a), Date(b)) => Ok(Bool(a < b)),
        (Gt, Date(a), Date(b)) => Ok(Bool(a > b)),
        (Le, Date(a), Date(b)) => Ok(Bool(a <= b)),
        (Ge, Date(a), Date(b)) => Ok(Bool(a >= b)),
        // arithmetic, checked
        (Add, Int(a), Int(b)) => a.checked_add(b).map(Int).ok_or(EvalErr::Overflow),
        (Sub, Int(a), Int(b)) => a.checked_sub(b).map(Int).ok_or(EvalErr::Overflow),
        (Mul, Int(a), Int(b)) => a.checked_mul(b).map(Int).ok_or(EvalErr::Overflow),
        (Div, Int(_), Int(0)) => Err(EvalErr::DivideByZero),
        (Div, Int(a), Int(b)) => a.checked_div(b).map(Int).ok_or(EvalErr::Overflow),
        (BitAnd, Int(a), Int(b)) => Ok(Int(a & b)),
        (BitOr, Int(a), Int(b)) => Ok(Int(a | b)),
        (BitXor, Int(a), Int(b)) => Ok(Int(a ^ b)),
        (Add, Str(a), Str(b)) => Ok(Str(format!("{a}{b}"))),
        // strings
        (Prefix, Str(a), Str(b)) => Ok(Bool(a.starts_with(&b))),
        (Suffix, Str(a), Str(b)) => Ok(Bool(a.ends_with(&b))),
        (Contains, Str(a), Str(b)) => Ok(Bool(a.contains(&b))),
        (Regex, Str(a), Str(b)) => crate::miniregex::is_match(&b, &a).map(Bool).map_err(|e| EvalErr::Unsupported(format!("regex: {e}"))),
        // booleans
        (And, Bool(a), Bool(b)) => Ok(Bool(a && b)),
        (Or, Bool(a), Bool(b)) => Ok(Bool(a || b)),
        // sets
        (Intersection, Set(a), Set(b)) => Ok(Set(a.intersection(&b).cloned().collect())),
        (Union, Set(a), Set(b)) => Ok(Set(a.union(&b).cloned().collect())),
        (Contains, Set(a), Set(b)) => Ok(Bool(b.is_subset(&a))),
        (Contains, Set(a), x @ (Int(_) | Date(_) | Bool(_) | Str(_) | Bytes(_))) => {
            Ok(Bool(a.contains(&x)))
        }
        // arrays
        (Contains, Array(a), x) => Ok(Bool(a.iter().any(|e| *e == x))),
        (Prefix, Array(a), Array(b)) => Ok(Bool(a.starts_with(&b))),
        (Suffix, Array(a), Array(b)) => Ok(Bool(a.ends_with(&b))),
        (Get, Array(a), Int(i)) => Ok(usize::try_from(i)
            .ok()
            .and_then(|i| a.get(i).cloned())
            .unwrap_or(Null)),
        // maps
        (Contains, Map(m), Int(i)) => Ok(Bool(m.contains_key(&MapKey::Int(i)))),
        (Contains, Map(m), Str(s)) => Ok(Bool(m.contains_key(&MapKey::Str(s)))),
        (Contains, Map(_), _) => Ok(Bool(false)),
        (Get, Map(m), Int(i)) => Ok(m.get(&MapKey::Int(i)).cloned().unwrap_or(Null)),
        (Get, Map(m), Str(s)) => Ok(m.get(&MapKey::Str(s)).cloned().unwrap_or(Null)),
        // equality: strict needs equal types, heterogeneous never fails
        (Eq, a, b) => {
            if same_type(&a, &b) {
                Ok(Bool(a == b))
            } else {
                Err(EvalErr::InvalidType)
            }
        }
        (Ne, a, b) => {
            if same_type(&a, &b) {
                Ok(Bool(a != b))
            } else {
                Err(EvalErr::InvalidType)
            }
        }
        (HEq, a, b) => Ok(Bool(same_type(&a, &b) && a == b)),
        (HNe, a, b) => Ok(Bool(!(same_type(&a, &b) && a == b))),
        (Ffi(name), a, b) => match ext.get(name) {
            None => Err(EvalErr::Unsupported(format!("extern {name}"))),
            Some(f) => f(&a, Some(&b)).map_err(EvalErr::Extern),
        },
        _ => Err(EvalErr::InvalidType),
    }
}

// ---------------------------------------------------------------------------------------------
// matching

fn unify(pattern: &Pred, fact: &Pred, env: &Bindings) -> Option<Bindings> {
    if pattern.name != fact.name || pattern.terms.len() != fact.terms.len() {
        return None;
    }
    let mut env = env.clone();
    for (p, f) in pattern.terms.iter().zip(&fact.terms) {
        match p {
            Term::Var(v) => match env.get(v) {
                Some(bound) => {
                    if bound != f {
                        return None;
                    }
                }
                None => {
                    env.insert(v.clone(), f.clone());
                }
            },
            other => {
                if other != f {
                    return None;
                }
            }
        }
    }
    Some(env)
}

/// all ways to match the body atoms against trusted facts, with the union of matched origins
pub fn body_matches(body: &[Pred], facts: &Facts, trusted: &Origin) -> Vec<(Origin, Bindings)> {
    let visible: Vec<&(Origin, Pred)> = facts
        .iter()
        .filter(|(o, _)| o.is_subset(trusted))
        .collect();
    let mut partial: Vec<(Origin, Bindings)> = vec![(Origin::new(), Bindings::new())];
    for atom in body {
        let mut next = Vec::new();
        for (o, env) in &partial {
            for (fo, f) in &visible {
                if let Some(env2) = unify(atom, f, env) {
                    let mut o2 = o.clone();
                    o2.extend(fo.iter().cloned());
                    next.push((o2, env2));
                }
            }
        }
        partial = next;
    }
    partial
}

/// expressions of a rule under one binding: Ok(true) when all hold
fn exprs_hold(exprs: &[Expr], env: &Bindings, ext: &ExternTable) -> Result<bool, EvalErr> {
    for e in exprs {
        match eval(e, env, ext)? {
            Term::Bool(true) => {}
            Term::Bool(false) => return Ok(false),
            _ => return Err(EvalErr::InvalidType),
        }
    }
    Ok(true)
}

#[derive(Clone, Debug, Default)]
pub struct MatchSummary {
    /// bindings matching the body and satisfying every expression
    pub satisfied: Vec<(Origin, Bindings)>,
    /// bindings matching the body for which an expression is false
    pub falsified: usize,
    /// bindings for which an expression fails to evaluate
    pub errors: Vec<EvalErr>,
    pub body_matches: usize,
}

pub fn evaluate_query(
    q: &Rule,
    facts: &Facts,
    trusted: &Origin,
    ext: &ExternTable,
) -> MatchSummary {
    let mut s = MatchSummary::default();
    for (o, env) in body_matches(&q.body, facts, trusted) {
        s.body_matches += 1;
        match exprs_hold(&q.exprs, &env, ext) {
            Ok(true) => s.satisfied.push((o, env)),
            Ok(false) => s.falsified += 1,
            Err(e) => s.errors.push(e),
        }
    }
    s
}

fn instantiate(head: &Pred, env: &Bindings) -> Option<Pred> {
    let mut terms = Vec::new();
    for t in &head.terms {
        match t {
            Term::Var(v) => terms.push(env.get(v)?.clone()),
            other => terms.push(other.clone()),
        }
    }
    Some(Pred {
        name: head.name.clone(),
        terms,
    })
}

// ---------------------------------------------------------------------------------------------
// trust

pub struct Trust<'a> {
    pub blocks: &'a [RBlock],
}

impl<'a> Trust<'a> {
    fn key_blocks(&self, k: &PubKey) -> Vec<usize> {
        self.blocks
            .iter()
            .enumerate()
            .filter(|(i, b)| *i >= 1 && b.external.as_ref() == Some(k))
            .map(|(i, _)| i)
            .collect()
    }

    /// trusted origins of something owned by `owner` carrying `scopes`, inheriting `default`
    pub fn trusted(&self, scopes: &[Scope], default: &Origin, owner: usize) -> Origin {
        let mut o = Origin::new();
        o.insert(AUTH);
        o.insert(owner);
        if scopes.is_empty() {
            o.extend(default.iter().cloned());
            return o;
        }
        for s in scopes {
            match s {
                Scope::Authority => {
                    o.insert(0);
                }
                Scope::Previous => {
                    if owner != AUTH {
                        o.extend(0..=owner);
                    }
                }
                Scope::Key(k) => o.extend(self.key_blocks(k)),
            }
        }
        o
    }

    pub fn base() -> Origin {
        [0usize, AUTH].into_iter().collect()
    }

    pub fn block_default(&self, i: usize) -> Origin {
        self.trusted(&self.blocks[i].block.scopes, &Self::base(), i)
    }
}

// ---------------------------------------------------------------------------------------------
// the world

pub struct World<'a> {
    pub blocks: &'a [RBlock],
    pub authorizer: &'a Authorizer,
    pub ext: &'a ExternTable,
    pub facts: Facts,
    pub iterations: u64,
    pub error: Option<EvalErr>,
    /// an expression of a *rule* failed for some binding during the fixpoint (every binding of
    /// a rule is evaluated: the evaluation as a whole fails, whatever the order)
    pub rule_error: Option<EvalErr>,
    /// R5: number of (fact, origin) pairs after each productive iteration
    pub fact_counts: Vec<usize>,
}

struct OwnedRule<'a> {
    owner: usize,
    trusted: Origin,
    rule: &'a Rule,
}

impl<'a> World<'a> {
    pub fn new(blocks: &'a [RBlock], authorizer: &'a Authorizer, ext: &'a ExternTable) -> Self {
        let mut facts = Facts::new();
        for (i, b) in blocks.iter().enumerate() {
            for f in &b.block.facts {
                facts.insert(([i].into_iter().collect(), f.clone()));
            }
        }
        for f in &authorizer.facts {
            facts.insert(([AUTH].into_iter().collect(), f.clone()));
        }
        World {
            blocks,
            authorizer,
            ext,
            facts,
            iterations: 0,
            error: None,
            rule_error: None,
            fact_counts: vec![],
        }
    }

    fn trust(&self) -> Trust<'a> {
        Trust {
            blocks: self.blocks,
        }
    }

    pub fn authorizer_default(&self) -> Origin {
        self.trust()
            .trusted(&self.authorizer.scopes, &Trust::base(), AUTH)
    }

    fn rules(&self) -> Vec<OwnedRule<'a>> {
        let t = self.trust();
        let mut out = Vec::new();
        for (i, b) in self.blocks.iter().enumerate() {
            let d = t.block_default(i);
            for r in &b.block.rules {
                out.push(OwnedRule {
                    owner: i,
                    trusted: t.trusted(&r.scopes, &d, i),
                    rule: r,
                });
            }
        }
        let d = self.authorizer_default();
        for r in &self.authorizer.rules {
            out.push(OwnedRule {
                owner: AUTH,
                trusted: t.trusted(&r.scopes, &d, AUTH),
                rule: r,
            });
        }
        out
    }

    /// naive fixpoint; `max_rounds` only guards the reference itself against a generator bug
    pub fn run(&mut self, max_rounds: u64) {
        let rules = self.rules();
        loop {
            let mut new: Vec<(Origin, Pred)> = Vec::new();
            for r in &rules {
                let s = evaluate_query(r.rule, &self.facts, &r.trusted, self.ext);
                if let Some(e) = s.errors.first() {
                    if self.error.is_none() {
                        self.error = Some(e.clone());
                    }
                    if self.rule_error.is_none() {
                        self.rule_error = Some(e.clone());
                    }
                }
                for (o, env) in s.satisfied {
                    if let Some(f) = instantiate(&r.rule.head, &env) {
                        let mut o = o;
                        o.insert(r.owner);
                        new.push((o, f));
                    }
                }
            }
            let before = self.facts.len();
            self.facts.extend(new);
            if self.facts.len() == before {
                break;
            }
            self.iterations += 1;
            self.fact_counts.push(self.facts.len());
            if self.iterations >= max_rounds {
                break;
            }
        }
    }

    fn check_passes(
        &mut self,
        check: &Check,
        default: &Origin,
        owner: usize,
    ) -> bool {
        let t = self.trust();
        let mut any_match = false;
        let mut pass_all = false;
        for q in &check.queries {
            let trusted = t.trusted(&q.scopes, default, owner);
            let s = evaluate_query(q, &self.facts, &trusted, self.ext);
            if let Some(e) = s.errors.first() {
                if self.error.is_none() {
                    self.error = Some(e.clone());
                }
            }
            if !s.satisfied.is_empty() {
                any_match = true;
            }
            if s.body_matches > 0 && s.falsified == 0 && s.errors.is_empty() {
                pass_all = true;
            }
        }
        match check.kind {
            CheckKind::One => any_match,
            CheckKind::All => pass_all,
            CheckKind::Reject => !any_match,
        }
    }

    pub fn authorize(&mut self) -> Decision {
        self.run(10_000);
        let mut failed = Vec::new();
        let adef = self.authorizer_default();
        let checks = self.authorizer.checks.clone();
        for (i, c) in checks.iter().enumerate() {
            if !self.check_passes(c, &adef, AUTH) {
                failed.push(CheckId::Authorizer(i));
            }
        }
        for bi in 0..self.blocks.len() {
            let d = self.trust().block_default(bi);
            let checks = self.blocks[bi].block.checks.clone();
            for (j, c) in checks.iter().enumerate() {
                if !self.check_passes(c, &d, bi) {
                    failed.push(CheckId::Block(bi, j));
                }
            }
        }
        let mut matched: Option<(bool, usize)> = None;
        let policies = self.authorizer.policies.clone();
        'p: for (i, p) in policies.iter().enumerate() {
            for q in &p.queries {
                let trusted = self.trust().trusted(&q.scopes, &adef, AUTH);
                let s = evaluate_query(q, &self.facts, &trusted, self.ext);
                if let Some(e) = s.errors.first() {
                    if self.error.is_none() {
                        self.error = Some(e.clone());
                    }
                }
                if !s.satisfied.is_empty() {
                    matched = Some((p.kind == PolicyKind::Allow, i));
                    break 'p;
                }
            }
        }
        if let Some(e) = &self.error {
            return Decision::Error(e.clone());
        }
        match matched {
            Some((true, i)) if failed.is_empty() => Decision::Allowed(i),
            Some((allow, i)) => Decision::Refused {
                allow,
                policy: i,
                checks: failed,
            },
            None => Decision::NoPolicy { checks: failed },
        }
    }

    /// `query`: sees authority and authorizer facts unless the rule carries scopes
    pub fn query(&mut self, rule: &Rule, all_blocks: bool) -> Result<BTreeSet<Pred>, EvalErr> {
        self.run(10_000);
        let t = self.trust();
        let trusted = if rule.scopes.is_empty() {
            if all_blocks {
                let mut o: Origin = (0..self.blocks.len()).collect();
                o.insert(AUTH);
                o
            } else {
                Trust::base()
            }
        } else {
            t.trusted(&rule.scopes, &Trust::base(), AUTH)
        };
        let s = evaluate_query(rule, &self.facts, &trusted, self.ext);
        if let Some(e) = s.errors.first() {
            return Err(e.clone());
        }
        if let Some(e) = &self.error {
            return Err(e.clone());
        }
        Ok(s.satisfied
            .iter()
            .filter_map(|(_, env)| instantiate(&rule.head, env))
            .collect())
    }
}

/// ungrouped helper used by the engine-level check (C05): fixpoint of explicit rules over
/// explicit facts, both with arbitrary origins / trusted sets
pub fn fixpoint(
    facts: &Facts,
    rules: &[(usize, Origin, Rule)],
    ext: &ExternTable,
) -> Result<Facts, EvalErr> {
    let mut facts = facts.clone();
    loop {
        let mut new = Vec::new();
        for (owner, trusted, rule) in rules {
            let s = evaluate_query(rule, &facts, trusted, ext);
            if let Some(e) = s.errors.first() {
                return Err(e.clone());
            }
            for (o, env) in s.satisfied {
                if let Some(f) = instantiate(&rule.head, &env) {
                    let mut o = o;
                    o.insert(*owner);
                    new.push((o, f));
                }
            }
        }
        let before = facts.len();
        facts.extend(new);
        if facts.len() == before {
            return Ok(facts);
        }
    }
}
