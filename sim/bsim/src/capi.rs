//! C19: histories of C API calls issued by 1..3 simulated caller threads. The threads are real
//! (the error channel is thread-local) but never run concurrently: a turn scheduler releases one
//! call at a time in the order the case prescribes. The oracle is the Rust API executed on the
//! same history with the same seeds; buffers carry canaries. A panic inside an `extern "C"`
//! function aborts the process, so cases run in supervised child processes.
use crate::ast::Alg;
use crate::driver::{CaseResult, Engine};
use crate::rng::Rng;
use crate::world::{Stats, Violation};
use biscuit_auth::builder::{Algorithm, AuthorizerBuilder, BiscuitBuilder, BlockBuilder};
use biscuit_auth::{error, Authorizer, Biscuit, KeyPair, PublicKey};
use biscuit_capi as c;
use rand::{rngs::StdRng, SeedableRng};
use serde::{Deserialize, Serialize};
use std::ffi::{CStr, CString};
use std::sync::mpsc;

#[derive(Clone, Copy, Debug, PartialEq, Eq, Serialize, Deserialize)]
pub enum Kind {
    Fact,
    Rule,
    Check,
    Policy,
}

#[derive(Clone, Debug, PartialEq, Eq, Serialize, Deserialize)]
pub enum Op {
    KeyPairNew { alg: Alg, seed: u8, seed_len: usize },
    KeyPairPublic { kp: usize },
    KeyPairRoundTrip { kp: usize },
    PublicKeyRoundTrip { pk: usize },
    BuilderNew,
    BuilderContext { b: usize, text: String },
    BuilderRootKeyId { b: usize, id: u32 },
    BuilderAdd { b: usize, kind: Kind, text: String },
    BuilderBuild { b: usize, kp: usize, seed: u8, seed_len: usize },
    BlockNew,
    BlockContext { l: usize, text: String },
    BlockAdd { l: usize, kind: Kind, text: String },
    Append { t: usize, l: usize, kp: usize },
    From {
        t: usize,
        pk: usize,
        corrupt: bool,
        /// how the bytes are damaged when `corrupt`: 0 one byte flipped, 1..4 structured (a
        /// signature or key field of the wrong length), 5 truncated
        #[serde(default)]
        how: u8,
        /// load the sealed serialization of the token (every later operation on the handle
        /// then meets a sealed token: append, sealed size and sealed serialization must refuse)
        #[serde(default)]
        sealed: bool,
    },
    /// a token minted by another party through the Rust API (content the C builders cannot
    /// write: text holding a NUL, a third-party block, very long text, 3.3 values) loaded with
    /// biscuit_from
    FromForeign { kp: usize, content: u8, seed: u8 },
    Serialize { t: usize },
    SerializeSealed { t: usize },
    BlockCount { t: usize },
    BlockContextGet { t: usize, i: u32 },
    Print { t: usize },
    PrintBlockSource { t: usize, i: u32 },
    TokenAuthorizer { t: usize },
    ABuilderNew,
    ABuilderAdd { ab: usize, kind: Kind, text: String },
    ABuilderBuild { ab: usize, t: usize },
    ABuilderBuildUnauth { ab: usize },
    Authorize { a: usize },
    AuthorizerPrint { a: usize },
    ErrorProbe,
}

#[derive(Clone, Debug, PartialEq, Eq, Serialize, Deserialize)]
pub struct Call {
    pub thread: usize,
    /// fault: NULL is passed for the first handle argument
    pub null: bool,
    pub op: Op,
}

#[derive(Clone, Debug, Serialize, Deserialize)]
pub struct CapiCase {
    pub threads: usize,
    pub calls: Vec<Call>,
}

pub struct CapiEngine;

const FACTS: &[&str] = &["right(\"file1\", \"read\")", "user(1)", "resource(\"file2\")", "list([1, 2])", "right(", "user($x)", "", "user({who})", "right(\"file1\", {op})"];
const RULES: &[&str] = &["can($f) <- right($f, \"read\")", "ok($u) <- user($u), $u > 0", "can($f) <- ", "bad($x) <- user($y)", "can($f) <- right($f, {op})", "can({f}) <- user(1)"];
const CHECKS: &[&str] = &["check if user($u)", "check if resource(\"file1\")", "check all user($u), $u < 10", "reject if user(2)", "check if", "check if right($f, $r) or user(1)", "check if user({who})", "check if user(1) trusting {key}"];
const POLICIES: &[&str] = &["allow if true", "deny if user(1)", "allow if right($f, \"read\")", "allow", "deny if false", "allow if user({who})", "deny if user(1) trusting {key}"];

// ---------------------------------------------------------------------------------------------
// turn scheduler: caller threads execute one job at a time, on demand

type Job = Box<dyn FnOnce() -> Res + Send>;

#[derive(Clone, Debug, PartialEq, Eq)]
pub enum Res {
    Ptr(usize),
    Size(usize),
    Bool(bool),
    Str(Option<String>),
    Buf { ret: usize, data: Vec<u8>, canaries_ok: bool },
    Err(ErrView),
    Unit,
}

#[derive(Clone, Debug, PartialEq, Eq, Default)]
pub struct ErrView {
    pub kind: u32,
    pub message: Option<String>,
    pub checks: Vec<(u64, u64, bool, Option<String>)>,
}

struct Caller {
    tx: mpsc::Sender<Job>,
    rx: mpsc::Receiver<Res>,
}

fn spawn_callers(n: usize) -> Vec<Caller> {
    (0..n)
        .map(|_| {
            let (tx, jrx) = mpsc::channel::<Job>();
            let (rtx, rx) = mpsc::channel::<Res>();
            std::thread::spawn(move || {
                // evaluation inside the C API uses the default 1 ms budget: freeze the clock
                biscuit_auth::verif::install_clock(biscuit_auth::verif::ClockScript::default());
                for job in jrx {
                    let r = job();
                    if rtx.send(r).is_err() {
                        break;
                    }
                }
            });
            Caller { tx, rx }
        })
        .collect()
}

fn on(callers: &[Caller], t: usize, job: Job) -> Res {
    let c = &callers[t % callers.len()];
    if c.tx.send(job).is_err() {
        return Res::Unit;
    }
    c.rx.recv().unwrap_or(Res::Unit)
}

unsafe fn read_cstr(p: *const std::os::raw::c_char) -> Option<String> {
    if p.is_null() {
        None
    } else {
        Some(CStr::from_ptr(p).to_string_lossy().to_string())
    }
}

fn read_error() -> ErrView {
    let kind = c::error_kind() as u32;
    let message = unsafe { read_cstr(c::error_message()) };
    let n = c::error_check_count();
    let mut checks = Vec::new();
    // one index past the end as well (out-of-range index fault)
    for i in 0..n + 1 {
        checks.push((c::error_check_id(i), c::error_check_block_id(i), c::error_check_is_authorizer(i), unsafe { read_cstr(c::error_check_rule(i)) }));
    }
    ErrView { kind, message, checks }
}

const CANARY: usize = 16;

/// calls `f(ptr)` with a buffer of exactly `announced` bytes surrounded by canaries
fn with_buffer(announced: usize, f: impl FnOnce(*mut u8) -> usize) -> Res {
    let mut v = vec![0xAAu8; announced + 2 * CANARY];
    let ret = f(unsafe { v.as_mut_ptr().add(CANARY) });
    let canaries_ok = v[..CANARY].iter().all(|b| *b == 0xAA) && v[CANARY + announced..].iter().all(|b| *b == 0xAA);
    Res::Buf { ret, data: v[CANARY..CANARY + announced].to_vec(), canaries_ok }
}

// ---------------------------------------------------------------------------------------------
// the model

#[derive(Clone, Debug, PartialEq)]
enum MErr {
    InvalidArgument,
    Lib(error::Token),
}

fn expected_kind(e: &MErr) -> Vec<u32> {
    use error::*;
    let k = |x: c::ErrorKind| vec![x as u32];
    match e {
        MErr::InvalidArgument => k(c::ErrorKind::InvalidArgument),
        MErr::Lib(Token::FailedLogic(Logic::Unauthorized { .. })) => k(c::ErrorKind::LogicUnauthorized),
        MErr::Lib(Token::FailedLogic(Logic::NoMatchingPolicy { .. })) => k(c::ErrorKind::LogicNoMatchingPolicy),
        MErr::Lib(Token::FailedLogic(Logic::InvalidBlockRule(_, _))) => k(c::ErrorKind::LogicInvalidBlockRule),
        MErr::Lib(Token::Language(_)) => k(c::ErrorKind::LanguageError),
        MErr::Lib(Token::AppendOnSealed) => k(c::ErrorKind::AppendOnSealed),
        MErr::Lib(Token::AlreadySealed) => k(c::ErrorKind::AlreadySealed),
        MErr::Lib(Token::RunLimit(RunLimit::Timeout)) => k(c::ErrorKind::Timeout),
        MErr::Lib(Token::RunLimit(RunLimit::TooManyFacts)) => k(c::ErrorKind::TooManyFacts),
        MErr::Lib(Token::RunLimit(RunLimit::TooManyIterations)) => k(c::ErrorKind::TooManyIterations),
        MErr::Lib(Token::Execution(_)) => k(c::ErrorKind::Execution),
        // Format errors: the C kind that carries the same name as the Rust variant
        MErr::Lib(Token::Format(f)) => k(match f {
            Format::Signature(Signature::InvalidFormat) => c::ErrorKind::FormatSignatureInvalidFormat,
            Format::Signature(Signature::InvalidSignature(_)) => c::ErrorKind::FormatSignatureInvalidSignature,
            Format::Signature(Signature::InvalidSignatureGeneration(_)) => c::ErrorKind::FormatSignatureInvalidSignatureGeneration,
            Format::SealedSignature => c::ErrorKind::FormatSealedSignature,
            Format::EmptyKeys => c::ErrorKind::FormatEmptyKeys,
            Format::UnknownPublicKey => c::ErrorKind::FormatUnknownPublicKey,
            Format::DeserializationError(_) => c::ErrorKind::FormatDeserializationError,
            Format::SerializationError(_) => c::ErrorKind::FormatSerializationError,
            Format::BlockDeserializationError(_) => c::ErrorKind::FormatBlockDeserializationError,
            Format::BlockSerializationError(_) => c::ErrorKind::FormatBlockSerializationError,
            Format::Version { .. } => c::ErrorKind::FormatVersion,
            Format::InvalidKeySize(_) => c::ErrorKind::FormatInvalidKeySize,
            Format::InvalidSignatureSize(_) => c::ErrorKind::FormatInvalidSignatureSize,
            Format::InvalidKey(_) => c::ErrorKind::FormatInvalidKey,
            Format::SignatureDeserializationError(_) => c::ErrorKind::FormatSignatureDeserializationError,
            Format::BlockSignatureDeserializationError(_) => c::ErrorKind::FormatBlockSignatureDeserializationError,
            Format::InvalidBlockId(_) => c::ErrorKind::FormatInvalidBlockId,
            Format::ExistingPublicKey(_) => c::ErrorKind::FormatExistingPublicKey,
            Format::SymbolTableOverlap => c::ErrorKind::FormatSymbolTableOverlap,
            Format::PublicKeyTableOverlap => c::ErrorKind::FormatPublicKeyTableOverlap,
            Format::UnknownExternalKey => c::ErrorKind::FormatUnknownExternalKey,
            Format::UnknownSymbol(_) => c::ErrorKind::FormatUnknownSymbol,
            Format::PKCS8(_) => c::ErrorKind::FormatPKCS8,
        }),
        MErr::Lib(Token::Base64(_)) => {
            // any of the Format* kinds
            let mut v: Vec<u32> = (c::ErrorKind::FormatSignatureInvalidFormat as u32..=c::ErrorKind::FormatUnknownSymbol as u32).collect();
            v.extend(c::ErrorKind::FormatInvalidKeySize as u32..=c::ErrorKind::FormatSignatureInvalidSignatureGeneration as u32);
            v.push(c::ErrorKind::FormatPKCS8 as u32);
            v
        }
        MErr::Lib(_) => (0..64).collect(),
    }
}

/// a token minted by another party with the Rust API; every key comes from `seed`
fn foreign_token(root: &KeyPair, content: u8, seed: u8) -> Option<Biscuit> {
    use biscuit_auth::builder::{fact, pred, rule, string, int, Check, CheckKind, Term};
    let key = |k: u8| KeyPair::new_with_rng(Algorithm::Ed25519, &mut StdRng::from_seed([seed ^ k; 32]));
    let failing = |what: Term| Check { queries: vec![rule("q", &[] as &[Term], &[pred("missing", &[what])])], kind: CheckKind::One };
    let symbols = biscuit_auth::datalog::SymbolTable::new;
    let mut b = BiscuitBuilder::new();
    match content % 4 {
        0 => {
            // text no C string can carry
            b = b.context("ctx\0hidden".to_string());
            b = b.fact(fact("note", &[string("a\0b")])).ok()?;
            b = b.check(failing(string("x\0y"))).ok()?;
        }
        1 => {
            b = b.fact(fact("user", &[int(1)])).ok()?;
            if seed % 2 == 1 {
                b = b.check(failing(int(1))).ok()?;
            }
            let tok = b.build_with_key_pair(root, symbols(), &key(1)).ok()?;
            let signer = key(2);
            let req = tok.third_party_request().ok()?;
            let block = BlockBuilder::new().code("group(\"admin\"); check if user(1) trusting authority;").ok()?;
            let resp = req.create_block(&signer.private(), block).ok()?;
            return tok.append_third_party_with_keypair(signer.public(), resp, key(3)).ok();
        }
        2 => {
            b = b.context("x".repeat(70_000));
            b = b.fact(fact("note", &[string(&"y".repeat(70_000))])).ok()?;
            if seed % 2 == 1 {
                b = b.check(failing(string(&"z".repeat(70_000)))).ok()?;
            }
        }
        _ => {
            b = b.code("data([1, 2], {\"a\": 1}, null); check if [1, 2].contains(1); check if {\"a\": 1}.get(\"a\") == 1;").ok()?;
            if seed % 2 == 1 {
                b = b.check(failing(int(3))).ok()?;
            }
        }
    }
    b.build_with_key_pair(root, symbols(), &key(1)).ok()
}

/// what a C caller can receive of a Rust string: nothing when it holds a NUL
fn c_view(s: Option<String>) -> Option<String> {
    s.filter(|x| !x.contains('\0'))
}

fn expected_checks(e: &MErr) -> Vec<(u64, u64, bool, Option<String>)> {
    use error::*;
    let list = match e {
        MErr::Lib(Token::FailedLogic(Logic::Unauthorized { checks, .. })) | MErr::Lib(Token::FailedLogic(Logic::NoMatchingPolicy { checks })) => checks.clone(),
        _ => vec![],
    };
    let mut out: Vec<(u64, u64, bool, Option<String>)> = list
        .iter()
        .map(|c| match c {
            FailedCheck::Block(b) => (b.check_id as u64, b.block_id as u64, false, c_view(Some(b.rule.clone()))),
            FailedCheck::Authorizer(a) => (a.check_id as u64, u64::MAX, true, c_view(Some(a.rule.clone()))),
        })
        .collect();
    // the probe also asks for one index past the end
    out.push((u64::MAX, u64::MAX, false, None));
    out
}

#[derive(Default)]
struct Slots {
    kp: Vec<(usize, Option<KeyPair>)>,
    pk: Vec<(usize, Option<PublicKey>)>,
    b: Vec<(usize, Option<BiscuitBuilder>)>,
    l: Vec<(usize, Option<BlockBuilder>)>,
    t: Vec<(usize, Option<Biscuit>)>,
    ab: Vec<(usize, Option<AuthorizerBuilder>)>,
    a: Vec<(usize, Option<Authorizer>)>,
}

fn lib_alg(a: Alg) -> Algorithm {
    match a {
        Alg::Ed25519 => Algorithm::Ed25519,
        Alg::P256 => Algorithm::Secp256r1,
    }
}

fn c_alg(a: Alg) -> c::SignatureAlgorithm {
    match a {
        Alg::Ed25519 => c::SignatureAlgorithm::Ed25519,
        Alg::P256 => c::SignatureAlgorithm::Secp256r1,
    }
}

struct Exec<'a> {
    callers: &'a [Caller],
    slots: Slots,
    model_err: Vec<Option<MErr>>,
    out: Vec<Violation>,
    stats: Stats,
    cur: usize,
    label: String,
}

macro_rules! pick {
    ($v:expr, $i:expr) => {
        if $v.is_empty() {
            None
        } else if $i >= 1000 {
            // names the most recently created one
            Some($v.len() - 1)
        } else {
            Some($i % $v.len())
        }
    };
}

impl<'a> Exec<'a> {
    fn violate(&mut self, class: &str, detail: String) {
        self.out.push(Violation {
            property: "C19".to_string(),
            class: class.to_string(),
            event: Some(self.cur),
            detail: format!("call #{} {}: {detail}", self.cur, self.label),
            focus: None,
        });
    }

    fn fail(&mut self, thread: usize, e: MErr) {
        let n = self.model_err.len();
        self.model_err[thread % n] = Some(e);
    }

    /// after a call that must have failed: what the error channel of that thread shows
    fn check_error_channel(&mut self, thread: usize, why: &str) {
        let view = match on(self.callers, thread, Box::new(|| Res::Err(read_error()))) {
            Res::Err(v) => v,
            _ => return,
        };
        self.stats.oracle_evals += 1;
        let n = self.model_err.len();
        let want = self.model_err[thread % n].clone();
        match want {
            None => {
                if view.kind != c::ErrorKind::None as u32 {
                    self.violate("capi-error-channel", format!("{why}: no call failed on this thread yet, error_kind() = {}", view.kind));
                }
            }
            Some(e) => {
                let kinds = expected_kind(&e);
                if !kinds.contains(&view.kind) {
                    self.violate(
                        "capi-error-channel",
                        format!("{why}: the Rust operation fails with {:?}, error_kind() = {} (expected one of {:?}) message {:?}", e, view.kind, &kinds[..kinds.len().min(4)], view.message),
                    );
                    return;
                }
                let want_checks = expected_checks(&e);
                if view.checks != want_checks {
                    self.violate("capi-error-channel", format!("{why}: failed-check accessors give {:?}, the Rust error lists {:?}", view.checks, want_checks));
                }
            }
        }
    }

    fn other_threads_unaffected(&mut self, thread: usize) {
        let n = self.model_err.len();
        for u in 0..n {
            if u == thread % n {
                continue;
            }
            self.check_error_channel(u, "error accessors on another caller thread");
        }
    }

    fn run(&mut self, i: usize, call: &Call) {
        self.cur = i;
        self.label = format!("{:?}{}", call.op, if call.null { " [NULL handle]" } else { "" });
        self.label.truncate(160);
        let th = call.thread;
        let null = call.null;
        self.stats.trace.push(format!("{}{}", self.label.split(|ch| ch == ' ' || ch == '{').next().unwrap_or(""), if null { ":null" } else { "" }));
        if null {
            self.stats.bump("fault.null_handle");
        }
        match &call.op {
            Op::KeyPairNew { alg, seed, seed_len } => {
                let seed_bytes = vec![*seed; *seed_len];
                let a = *alg;
                let sb = seed_bytes.clone();
                let r = on(self.callers, th, Box::new(move || Res::Ptr(unsafe { c::key_pair_new(sb.as_ptr(), sb.len(), c_alg(a)) }.map(|b| Box::into_raw(b) as usize).unwrap_or(0))));
                let model = if *seed_len == 32 {
                    let mut s = [0u8; 32];
                    s.copy_from_slice(&seed_bytes);
                    Some(KeyPair::new_with_rng(lib_alg(*alg), &mut StdRng::from_seed(s)))
                } else {
                    self.stats.bump("fault.bad_seed_length");
                    None
                };
                let ptr = if let Res::Ptr(p) = r { p } else { 0 };
                self.stats.oracle_evals += 1;
                if (ptr != 0) != model.is_some() {
                    self.violate("capi-differs", format!("key_pair_new returns {} handle, Rust {}", if ptr != 0 { "a" } else { "no" }, if model.is_some() { "succeeds" } else { "fails" }));
                }
                if model.is_none() {
                    self.fail(th, MErr::InvalidArgument);
                    self.check_error_channel(th, "key_pair_new with a seed that is not 32 bytes");
                }
                self.slots.kp.push((ptr, model));
            }
            Op::KeyPairPublic { kp } => {
                let idx = match pick!(self.slots.kp, *kp) {
                    Some(i) => i,
                    None => return,
                };
                let p = if null { 0 } else { self.slots.kp[idx].0 };
                let r = on(self.callers, th, Box::new(move || Res::Ptr(unsafe { c::key_pair_public((p as *const c::KeyPair).as_ref()) }.map(|b| Box::into_raw(b) as usize).unwrap_or(0))));
                let model = if p == 0 { None } else { self.slots.kp[idx].1.as_ref().map(|k| k.public()) };
                let ptr = if let Res::Ptr(x) = r { x } else { 0 };
                self.stats.oracle_evals += 1;
                if (ptr != 0) != model.is_some() {
                    self.violate("capi-differs", "key_pair_public: handle / no handle differs from the Rust API".to_string());
                }
                if p == 0 {
                    self.fail(th, MErr::InvalidArgument);
                    self.check_error_channel(th, "key_pair_public(NULL)");
                }
                self.slots.pk.push((ptr, model));
            }
            Op::KeyPairRoundTrip { kp } => {
                let idx = match pick!(self.slots.kp, *kp) {
                    Some(i) => i,
                    None => return,
                };
                let p = if null { 0 } else { self.slots.kp[idx].0 };
                let r = on(self.callers, th, Box::new(move || with_buffer(32, |buf| unsafe { c::key_pair_serialize((p as *const c::KeyPair).as_ref(), buf) })));
                self.stats.oracle_evals += 1;
                if let Res::Buf { ret, data, canaries_ok } = r {
                    if !canaries_ok {
                        self.violate("capi-buffer-overrun", "key_pair_serialize wrote outside its 32 byte buffer".to_string());
                    }
                    match (p != 0, self.slots.kp[idx].1.as_ref()) {
                        (true, Some(k)) => {
                            let want = k.private().to_bytes().to_vec();
                            if ret != want.len() || data[..ret.min(32)] != want[..] {
                                self.violate("capi-differs", format!("key_pair_serialize returns {ret} bytes that differ from the Rust private key ({} bytes)", want.len()));
                            } else {
                                // and back
                                let alg = if k.public().algorithm_string() == "ed25519" { Alg::Ed25519 } else { Alg::P256 };
                                let mut d = data.clone();
                                let r2 = on(self.callers, th, Box::new(move || Res::Ptr(unsafe { c::key_pair_deserialize(d.as_mut_ptr(), c_alg(alg)) }.map(|b| Box::into_raw(b) as usize).unwrap_or(0))));
                                let ptr = if let Res::Ptr(x) = r2 { x } else { 0 };
                                if ptr == 0 {
                                    self.violate("capi-differs", "key_pair_deserialize refuses the bytes key_pair_serialize produced".to_string());
                                }
                                let model = biscuit_auth::PrivateKey::from_bytes(&want, lib_alg(alg)).ok().map(|pk| KeyPair::from(&pk));
                                self.slots.kp.push((ptr, model));
                            }
                        }
                        _ => {
                            if ret != 0 {
                                self.violate("capi-differs", "key_pair_serialize(NULL) reports written bytes".to_string());
                            }
                            self.fail(th, MErr::InvalidArgument);
                            self.check_error_channel(th, "key_pair_serialize(NULL)");
                        }
                    }
                }
            }
            Op::PublicKeyRoundTrip { pk } => {
                let idx = match pick!(self.slots.pk, *pk) {
                    Some(i) => i,
                    None => return,
                };
                let p = if null { 0 } else { self.slots.pk[idx].0 };
                if p == 0 && !null {
                    return;
                }
                // the API documents a 32 byte buffer
                let r = on(self.callers, th, Box::new(move || with_buffer(32, |buf| unsafe { c::public_key_serialize((p as *const c::PublicKey).as_ref(), buf) })));
                self.stats.oracle_evals += 1;
                if let Res::Buf { ret, data, canaries_ok } = r {
                    if !canaries_ok {
                        self.violate("capi-buffer-overrun", "public_key_serialize wrote outside the 32 byte buffer it asks for".to_string());
                    }
                    match (p != 0, self.slots.pk[idx].1) {
                        (true, Some(k)) => {
                            let want = k.to_bytes();
                            if ret != want.len() || data[..ret.min(32)] != want[..ret.min(32)] {
                                self.violate(
                                    "capi-differs",
                                    format!("public_key_serialize announces {ret} bytes in its 32 byte buffer, the Rust key ({}) serializes to {} bytes", k.algorithm_string(), want.len()),
                                );
                            } else {
                                let alg = if k.algorithm_string() == "ed25519" { Alg::Ed25519 } else { Alg::P256 };
                                let mut d = data.clone();
                                let r2 = on(self.callers, th, Box::new(move || Res::Ptr(unsafe { c::public_key_deserialize(d.as_mut_ptr(), c_alg(alg)) }.map(|b| Box::into_raw(b) as usize).unwrap_or(0))));
                                let ptr = if let Res::Ptr(x) = r2 { x } else { 0 };
                                if ptr == 0 {
                                    self.violate("capi-differs", "public_key_deserialize refuses the bytes public_key_serialize produced".to_string());
                                }
                                self.slots.pk.push((ptr, Some(k)));
                            }
                        }
                        _ => {
                            self.fail(th, MErr::InvalidArgument);
                            self.check_error_channel(th, "public_key_serialize(NULL)");
                        }
                    }
                }
            }
            Op::BuilderNew => {
                let r = on(self.callers, th, Box::new(|| Res::Ptr(unsafe { c::biscuit_builder() }.map(|b| Box::into_raw(b) as usize).unwrap_or(0))));
                let ptr = if let Res::Ptr(x) = r { x } else { 0 };
                self.slots.b.push((ptr, Some(BiscuitBuilder::new())));
            }
            Op::BuilderContext { b, text } => {
                let idx = match pick!(self.slots.b, *b) {
                    Some(i) => i,
                    None => return,
                };
                let p = if null { 0 } else { self.slots.b[idx].0 };
                let cs = CString::new(text.clone()).unwrap_or_default();
                let r = on(self.callers, th, Box::new(move || Res::Bool(unsafe { c::biscuit_builder_set_context((p as *mut c::BiscuitBuilder).as_mut(), cs.as_ptr()) })));
                self.stats.oracle_evals += 1;
                if p == 0 {
                    if r != Res::Bool(false) {
                        self.violate("capi-differs", "biscuit_builder_set_context(NULL) succeeds".to_string());
                    }
                    self.fail(th, MErr::InvalidArgument);
                    self.check_error_channel(th, "biscuit_builder_set_context(NULL)");
                } else {
                    if r != Res::Bool(true) {
                        self.violate("capi-differs", "biscuit_builder_set_context fails".to_string());
                    }
                    if let Some(m) = self.slots.b[idx].1.take() {
                        self.slots.b[idx].1 = Some(m.context(text.clone()));
                    }
                }
            }
            Op::BuilderRootKeyId { b, id } => {
                let idx = match pick!(self.slots.b, *b) {
                    Some(i) => i,
                    None => return,
                };
                let p = if null { 0 } else { self.slots.b[idx].0 };
                let id = *id;
                let r = on(self.callers, th, Box::new(move || Res::Bool(unsafe { c::biscuit_builder_set_root_key_id((p as *mut c::BiscuitBuilder).as_mut(), id) })));
                self.stats.oracle_evals += 1;
                if p == 0 {
                    self.fail(th, MErr::InvalidArgument);
                    self.check_error_channel(th, "biscuit_builder_set_root_key_id(NULL)");
                } else {
                    if r != Res::Bool(true) {
                        self.violate("capi-differs", "biscuit_builder_set_root_key_id fails".to_string());
                    }
                    if let Some(m) = self.slots.b[idx].1.take() {
                        self.slots.b[idx].1 = Some(m.root_key_id(id));
                    }
                }
            }
            Op::BuilderAdd { b, kind, text } => {
                let idx = match pick!(self.slots.b, *b) {
                    Some(i) => i,
                    None => return,
                };
                let p = if null { 0 } else { self.slots.b[idx].0 };
                let cs = CString::new(text.clone()).unwrap_or_default();
                let k = *kind;
                let r = on(
                    self.callers,
                    th,
                    Box::new(move || {
                        let bp = unsafe { (p as *mut c::BiscuitBuilder).as_mut() };
                        Res::Bool(unsafe {
                            match k {
                                Kind::Fact => c::biscuit_builder_add_fact(bp, cs.as_ptr()),
                                Kind::Rule => c::biscuit_builder_add_rule(bp, cs.as_ptr()),
                                _ => c::biscuit_builder_add_check(bp, cs.as_ptr()),
                            }
                        })
                    }),
                );
                self.stats.oracle_evals += 1;
                if p == 0 {
                    self.fail(th, MErr::InvalidArgument);
                    self.check_error_channel(th, "biscuit_builder_add_*(NULL)");
                    return;
                }
                let m = self.slots.b[idx].1.clone().unwrap_or_default();
                let res = match k {
                    Kind::Fact => m.fact(text.as_str()),
                    Kind::Rule => m.rule(text.as_str()),
                    _ => m.check(text.as_str()),
                };
                match res {
                    Ok(m2) => {
                        self.slots.b[idx].1 = Some(m2);
                        if r != Res::Bool(true) {
                            self.violate("capi-differs", format!("biscuit_builder_add_{k:?} refuses `{text}` that the Rust builder accepts"));
                        }
                    }
                    Err(e) => {
                        self.stats.bump("fault.invalid_datalog");
                        if r != Res::Bool(false) {
                            self.violate("capi-differs", format!("biscuit_builder_add_{k:?} accepts `{text}` that the Rust builder refuses"));
                        }
                        self.fail(th, MErr::Lib(e));
                        self.check_error_channel(th, "biscuit_builder_add_* with invalid Datalog");
                    }
                }
            }
            Op::BuilderBuild { b, kp, seed, seed_len } => {
                let (bi, ki) = match (pick!(self.slots.b, *b), pick!(self.slots.kp, *kp)) {
                    (Some(x), Some(y)) => (x, y),
                    _ => return,
                };
                let p = if null { 0 } else { self.slots.b[bi].0 };
                let kptr = self.slots.kp[ki].0;
                let seed_bytes = vec![*seed; *seed_len];
                let sb = seed_bytes.clone();
                let r = on(
                    self.callers,
                    th,
                    Box::new(move || {
                        Res::Ptr(
                            unsafe { c::biscuit_builder_build((p as *const c::BiscuitBuilder).as_ref(), (kptr as *const c::KeyPair).as_ref(), sb.as_ptr(), sb.len()) }
                                .map(|b| Box::into_raw(b) as usize)
                                .unwrap_or(0),
                        )
                    }),
                );
                let ptr = if let Res::Ptr(x) = r { x } else { 0 };
                self.stats.oracle_evals += 1;
                let model: Result<Biscuit, MErr> = if p == 0 || kptr == 0 || *seed_len != 32 {
                    Err(MErr::InvalidArgument)
                } else {
                    match (self.slots.b[bi].1.clone(), self.slots.kp[ki].1.as_ref()) {
                        (Some(m), Some(k)) => {
                            let mut s = [0u8; 32];
                            s.copy_from_slice(&seed_bytes);
                            m.build_with_rng(k, biscuit_auth::datalog::SymbolTable::default(), &mut StdRng::from_seed(s)).map_err(MErr::Lib)
                        }
                        _ => Err(MErr::InvalidArgument),
                    }
                };
                match model {
                    Ok(t) => {
                        if ptr == 0 {
                            self.violate("capi-differs", "biscuit_builder_build returns NULL, the Rust builder builds a token".to_string());
                        }
                        self.slots.t.push((ptr, Some(t)));
                    }
                    Err(e) => {
                        if ptr != 0 {
                            self.violate("capi-differs", format!("biscuit_builder_build returns a token, the Rust operation fails with {e:?}"));
                        }
                        self.fail(th, e);
                        self.check_error_channel(th, "biscuit_builder_build with an invalid argument");
                        self.slots.t.push((ptr, None));
                    }
                }
            }
            Op::BlockNew => {
                let r = on(self.callers, th, Box::new(|| Res::Ptr(Box::into_raw(unsafe { c::create_block() }) as usize)));
                let ptr = if let Res::Ptr(x) = r { x } else { 0 };
                self.slots.l.push((ptr, Some(BlockBuilder::new())));
            }
            Op::BlockContext { l, text } => {
                let idx = match pick!(self.slots.l, *l) {
                    Some(i) => i,
                    None => return,
                };
                let p = if null { 0 } else { self.slots.l[idx].0 };
                let cs = CString::new(text.clone()).unwrap_or_default();
                let r = on(self.callers, th, Box::new(move || Res::Bool(unsafe { c::block_builder_set_context((p as *mut c::BlockBuilder).as_mut(), cs.as_ptr()) })));
                self.stats.oracle_evals += 1;
                if p == 0 {
                    self.fail(th, MErr::InvalidArgument);
                    self.check_error_channel(th, "block_builder_set_context(NULL)");
                } else {
                    if r != Res::Bool(true) {
                        self.violate("capi-differs", "block_builder_set_context fails".to_string());
                    }
                    if let Some(m) = self.slots.l[idx].1.take() {
                        self.slots.l[idx].1 = Some(m.context(text.clone()));
                    }
                }
            }
            Op::BlockAdd { l, kind, text } => {
                let idx = match pick!(self.slots.l, *l) {
                    Some(i) => i,
                    None => return,
                };
                let p = if null { 0 } else { self.slots.l[idx].0 };
                let cs = CString::new(text.clone()).unwrap_or_default();
                let k = *kind;
                let r = on(
                    self.callers,
                    th,
                    Box::new(move || {
                        let bp = unsafe { (p as *mut c::BlockBuilder).as_mut() };
                        Res::Bool(unsafe {
                            match k {
                                Kind::Fact => c::block_builder_add_fact(bp, cs.as_ptr()),
                                Kind::Rule => c::block_builder_add_rule(bp, cs.as_ptr()),
                                _ => c::block_builder_add_check(bp, cs.as_ptr()),
                            }
                        })
                    }),
                );
                self.stats.oracle_evals += 1;
                if p == 0 {
                    self.fail(th, MErr::InvalidArgument);
                    self.check_error_channel(th, "block_builder_add_*(NULL)");
                    return;
                }
                let m = self.slots.l[idx].1.clone().unwrap_or_default();
                let res = match k {
                    Kind::Fact => m.fact(text.as_str()),
                    Kind::Rule => m.rule(text.as_str()),
                    _ => m.check(text.as_str()),
                };
                match res {
                    Ok(m2) => {
                        self.slots.l[idx].1 = Some(m2);
                        if r != Res::Bool(true) {
                            self.violate("capi-differs", format!("block_builder_add_{k:?} refuses `{text}` that the Rust builder accepts"));
                        }
                    }
                    Err(e) => {
                        self.stats.bump("fault.invalid_datalog");
                        if r != Res::Bool(false) {
                            self.violate("capi-differs", format!("block_builder_add_{k:?} accepts `{text}` that the Rust builder refuses"));
                        }
                        self.fail(th, MErr::Lib(e));
                        self.check_error_channel(th, "block_builder_add_* with invalid Datalog");
                    }
                }
            }
            Op::Append { t, l, kp } => {
                let (ti, li, ki) = match (pick!(self.slots.t, *t), pick!(self.slots.l, *l), pick!(self.slots.kp, *kp)) {
                    (Some(a), Some(b), Some(c)) => (a, b, c),
                    _ => return,
                };
                let tp = if null { 0 } else { self.slots.t[ti].0 };
                let lp = self.slots.l[li].0;
                let kptr = self.slots.kp[ki].0;
                let r = on(
                    self.callers,
                    th,
                    Box::new(move || {
                        Res::Ptr(
                            unsafe { c::biscuit_append_block((tp as *const c::Biscuit).as_ref(), (lp as *const c::BlockBuilder).as_ref(), (kptr as *const c::KeyPair).as_ref()) }
                                .map(|b| Box::into_raw(b) as usize)
                                .unwrap_or(0),
                        )
                    }),
                );
                let ptr = if let Res::Ptr(x) = r { x } else { 0 };
                self.stats.oracle_evals += 1;
                let model: Result<Biscuit, MErr> = if tp == 0 || lp == 0 || kptr == 0 {
                    Err(MErr::InvalidArgument)
                } else {
                    match (self.slots.t[ti].1.as_ref(), self.slots.l[li].1.clone(), self.slots.kp[ki].1.as_ref()) {
                        (Some(tok), Some(bb), Some(k)) => tok.append_with_keypair(k, bb).map_err(MErr::Lib),
                        _ => Err(MErr::InvalidArgument),
                    }
                };
                match model {
                    Ok(tok) => {
                        if ptr == 0 {
                            self.violate("capi-differs", "biscuit_append_block returns NULL, the Rust append succeeds".to_string());
                        }
                        self.slots.t.push((ptr, Some(tok)));
                    }
                    Err(e) => {
                        if ptr != 0 {
                            self.violate("capi-differs", format!("biscuit_append_block returns a token, Rust fails with {e:?}"));
                        }
                        self.fail(th, e);
                        self.check_error_channel(th, "biscuit_append_block that must fail");
                    }
                }
            }
            Op::From { t, pk, corrupt, how, sealed } => {
                let (ti, pi) = match (pick!(self.slots.t, *t), pick!(self.slots.pk, *pk)) {
                    (Some(a), Some(b)) => (a, b),
                    _ => return,
                };
                let source = self.slots.t[ti].1.as_ref().and_then(|x| if *sealed { x.seal().ok().and_then(|s| s.to_vec().ok()) } else { x.to_vec().ok() });
                if *sealed && source.is_some() {
                    self.stats.bump("c19.sealed_token_loaded");
                }
                let mut bytes = match source {
                    Some(b) => b,
                    None => return,
                };
                if *corrupt {
                    self.stats.bump("fault.corrupt_token");
                    let n = bytes.len();
                    use prost::Message;
                    let mut structured = biscuit_auth::format::schema::Biscuit::decode(&bytes[..]).ok();
                    match (how % 6, structured.as_mut()) {
                        (1, Some(t)) => t.authority.signature.truncate(10),
                        (2, Some(t)) => {
                            let last = t.blocks.last_mut().unwrap_or(&mut t.authority);
                            last.signature.push(0);
                        }
                        (3, Some(t)) => t.authority.next_key.key.truncate(7),
                        (4, Some(t)) => {
                            let last = t.blocks.last_mut().unwrap_or(&mut t.authority);
                            last.signature.clear();
                        }
                        (5, _) => {
                            bytes.truncate(n - n / 3);
                            structured = None;
                        }
                        _ => {
                            bytes[n / 2] ^= 0x40;
                            structured = None;
                        }
                    }
                    if let Some(t) = structured {
                        bytes.clear();
                        let _ = t.encode(&mut bytes);
                    }
                }
                let pp = if null { 0 } else { self.slots.pk[pi].0 };
                let b2 = bytes.clone();
                let r = on(self.callers, th, Box::new(move || Res::Ptr(unsafe { c::biscuit_from(b2.as_ptr(), b2.len(), (pp as *const c::PublicKey).as_ref()) }.map(|b| Box::into_raw(b) as usize).unwrap_or(0))));
                let ptr = if let Res::Ptr(x) = r { x } else { 0 };
                self.stats.oracle_evals += 1;
                let model: Result<Biscuit, MErr> = if pp == 0 {
                    Err(MErr::InvalidArgument)
                } else {
                    match self.slots.pk[pi].1 {
                        Some(k) => Biscuit::from(&bytes, k).map_err(MErr::Lib),
                        None => Err(MErr::InvalidArgument),
                    }
                };
                match model {
                    Ok(tok) => {
                        if ptr == 0 {
                            self.violate("capi-differs", "biscuit_from returns NULL for a token the Rust API accepts".to_string());
                        }
                        self.slots.t.push((ptr, Some(tok)));
                    }
                    Err(e) => {
                        if ptr != 0 {
                            self.violate("capi-differs", format!("biscuit_from accepts a token the Rust API refuses with {e:?}"));
                        }
                        self.fail(th, e);
                        self.check_error_channel(th, "biscuit_from that must fail");
                    }
                }
            }
            Op::FromForeign { kp, content, seed } => {
                let ki = match pick!(self.slots.kp, *kp) {
                    Some(i) => i,
                    None => return,
                };
                let (kp_ptr, root) = match &self.slots.kp[ki] {
                    (p, Some(k)) if *p != 0 => (*p, k),
                    _ => return,
                };
                let tok = match foreign_token(root, *content, *seed) {
                    Some(t) => t,
                    None => {
                        self.stats.bump("skip.foreign_token");
                        return;
                    }
                };
                let bytes = match tok.to_vec() {
                    Ok(b) => b,
                    Err(_) => return,
                };
                self.stats.bump(&format!("c19.foreign_token.{content}"));
                let b2 = bytes.clone();
                let r = on(
                    self.callers,
                    th,
                    Box::new(move || unsafe {
                        let pk = c::key_pair_public((kp_ptr as *const c::KeyPair).as_ref());
                        let root = if null { None } else { pk.as_deref() };
                        Res::Ptr(c::biscuit_from(b2.as_ptr(), b2.len(), root).map(|b| Box::into_raw(b) as usize).unwrap_or(0))
                    }),
                );
                let ptr = if let Res::Ptr(x) = r { x } else { 0 };
                self.stats.oracle_evals += 1;
                if null {
                    if ptr != 0 {
                        self.violate("capi-differs", "biscuit_from(NULL root key) returns a token".to_string());
                    }
                    self.fail(th, MErr::InvalidArgument);
                    self.check_error_channel(th, "biscuit_from(NULL root key)");
                    return;
                }
                match Biscuit::from(&bytes, root.public()) {
                    Ok(twin) => {
                        if ptr == 0 {
                            self.violate("capi-differs", "biscuit_from returns NULL for a token minted through the Rust API".to_string());
                        }
                        self.slots.t.push((ptr, Some(twin)));
                    }
                    Err(e) => {
                        if ptr != 0 {
                            self.violate("capi-differs", format!("biscuit_from accepts a token the Rust API refuses with {e:?}"));
                        }
                        self.fail(th, MErr::Lib(e));
                        self.check_error_channel(th, "biscuit_from that must fail");
                    }
                }
            }
            Op::Serialize { t } | Op::SerializeSealed { t } => {
                let sealed = matches!(call.op, Op::SerializeSealed { .. });
                let ti = match pick!(self.slots.t, *t) {
                    Some(a) => a,
                    None => return,
                };
                let tp = if null { 0 } else { self.slots.t[ti].0 };
                if tp == 0 && !null {
                    return;
                }
                let r = on(
                    self.callers,
                    th,
                    Box::new(move || {
                        let tr = unsafe { (tp as *const c::Biscuit).as_ref() };
                        let size = unsafe {
                            if sealed {
                                c::biscuit_sealed_size(tr)
                            } else {
                                c::biscuit_serialized_size(tr)
                            }
                        };
                        if tp == 0 {
                            return Res::Size(size);
                        }
                        with_buffer(size, |buf| unsafe {
                            if sealed {
                                c::biscuit_serialize_sealed(tr, buf)
                            } else {
                                c::biscuit_serialize(tr, buf)
                            }
                        })
                    }),
                );
                self.stats.oracle_evals += 1;
                if tp == 0 {
                    if r != Res::Size(0) {
                        self.violate("capi-differs", "size of a NULL token is not 0".to_string());
                    }
                    self.fail(th, MErr::InvalidArgument);
                    self.check_error_channel(th, "biscuit_*_size(NULL)");
                    return;
                }
                // a token that is already sealed cannot be sealed again: nothing is announced,
                // nothing is written, the refusal is in the error channel
                if sealed {
                    if let Some(Err(e)) = self.slots.t[ti].1.as_ref().map(|tok| tok.seal().map(|_| ())) {
                        self.stats.bump("c19.reseal_refused");
                        match &r {
                            Res::Buf { ret, data, canaries_ok } => {
                                if !canaries_ok {
                                    self.violate("capi-buffer-overrun", format!("sealed serialization of an already sealed token wrote outside the {} bytes the API announced", data.len()));
                                } else if *ret != 0 || !data.is_empty() {
                                    self.violate("capi-differs", format!("sealed serialization of an already sealed token: announced {} bytes, returned {ret}; Rust refuses with {e:?}", data.len()));
                                }
                            }
                            other => self.violate("capi-differs", format!("sealed serialization of an already sealed token gives {other:?}; Rust refuses with {e:?}")),
                        }
                        self.fail(th, MErr::Lib(e));
                        self.check_error_channel(th, "sealing an already sealed token");
                        return;
                    }
                }
                let want = self.slots.t[ti].1.as_ref().and_then(|tok| if sealed { tok.seal().ok().and_then(|s| s.to_vec().ok()) } else { tok.to_vec().ok() });
                if let (Res::Buf { ret, data, canaries_ok }, Some(want)) = (r, want) {
                    if !canaries_ok {
                        self.violate("capi-buffer-overrun", format!("serialization wrote outside the {} bytes the API announced", data.len()));
                    }
                    if data.len() != want.len() {
                        self.violate("capi-differs", format!("announced size {} differs from the Rust serialization ({} bytes), sealed={sealed}", data.len(), want.len()));
                    } else if ret != want.len() || data != want {
                        self.violate("capi-differs", format!("serialized bytes differ from the Rust serialization, sealed={sealed}, returned {ret}"));
                    }
                }
            }
            Op::BlockCount { t } => {
                let ti = match pick!(self.slots.t, *t) {
                    Some(a) => a,
                    None => return,
                };
                let tp = if null { 0 } else { self.slots.t[ti].0 };
                if tp == 0 && !null {
                    return;
                }
                let r = on(self.callers, th, Box::new(move || Res::Size(unsafe { c::biscuit_block_count((tp as *const c::Biscuit).as_ref()) })));
                self.stats.oracle_evals += 1;
                let want = if tp == 0 { 0 } else { self.slots.t[ti].1.as_ref().map(|x| x.block_count()).unwrap_or(0) };
                if r != Res::Size(want) {
                    self.violate("capi-differs", format!("biscuit_block_count gives {:?}, Rust {want}", r));
                }
                if tp == 0 {
                    self.fail(th, MErr::InvalidArgument);
                    self.check_error_channel(th, "biscuit_block_count(NULL)");
                }
            }
            Op::BlockContextGet { t, i } | Op::PrintBlockSource { t, i } => {
                let is_ctx = matches!(call.op, Op::BlockContextGet { .. });
                let ti = match pick!(self.slots.t, *t) {
                    Some(a) => a,
                    None => return,
                };
                let tp = if null { 0 } else { self.slots.t[ti].0 };
                if tp == 0 && !null {
                    return;
                }
                let idx = *i;
                let r = on(
                    self.callers,
                    th,
                    Box::new(move || unsafe {
                        let tr = (tp as *const c::Biscuit).as_ref();
                        if is_ctx {
                            let p = c::biscuit_block_context(tr, idx);
                            let s = read_cstr(p);
                            c::string_free(p);
                            Res::Str(s)
                        } else {
                            let p = c::biscuit_print_block_source(tr, idx);
                            let s = read_cstr(p);
                            c::string_free(p as *mut _);
                            Res::Str(s)
                        }
                    }),
                );
                self.stats.oracle_evals += 1;
                if tp == 0 {
                    if r != Res::Str(None) {
                        self.violate("capi-differs", "accessor on a NULL token returns a string".to_string());
                    }
                    self.fail(th, MErr::InvalidArgument);
                    self.check_error_channel(th, "token accessor(NULL)");
                    return;
                }
                let tok = match self.slots.t[ti].1.as_ref() {
                    Some(x) => x,
                    None => return,
                };
                if idx as usize >= tok.block_count() {
                    self.stats.bump("fault.index_out_of_range");
                }
                let want: Result<Option<String>, MErr> = if is_ctx {
                    match tok.context().get(idx as usize) {
                        Some(c) => Ok(c.clone()),
                        None => Err(MErr::Lib(error::Token::Format(error::Format::InvalidBlockId(idx as usize)))),
                    }
                } else {
                    tok.print_block_source(idx as usize).map(Some).map_err(MErr::Lib)
                };
                match want {
                    Ok(full) => {
                        let s = c_view(full.clone());
                        if r != Res::Str(s.clone()) {
                            self.violate("capi-differs", format!("accessor gives {:?}, Rust {:?}", r, s));
                        }
                        if full.is_some() && s.is_none() {
                            self.stats.bump("c19.nul_in_text");
                            // biscuit_print_block_source reports it; biscuit_block_context only returns NULL
                            if !is_ctx {
                                self.fail(th, MErr::InvalidArgument);
                                self.check_error_channel(th, "biscuit_print_block_source of text holding a NUL");
                            }
                        }
                    }
                    Err(e) => {
                        if r != Res::Str(None) {
                            self.violate("capi-differs", format!("accessor with index {idx} gives {:?}, Rust fails with {e:?}", r));
                        }
                        self.fail(th, e);
                        self.check_error_channel(th, "token accessor with an out-of-range index");
                    }
                }
            }
            Op::Print { t } => {
                let ti = match pick!(self.slots.t, *t) {
                    Some(a) => a,
                    None => return,
                };
                let tp = self.slots.t[ti].0;
                if tp == 0 {
                    return;
                }
                let r = on(
                    self.callers,
                    th,
                    Box::new(move || unsafe {
                        let p = c::biscuit_print((tp as *const c::Biscuit).as_ref());
                        let s = read_cstr(p);
                        c::string_free(p as *mut _);
                        Res::Str(s)
                    }),
                );
                self.stats.oracle_evals += 1;
                let full = self.slots.t[ti].1.as_ref().map(|x| x.print());
                let want = c_view(full.clone());
                if r != Res::Str(want.clone()) {
                    self.violate("capi-differs", "biscuit_print differs from Biscuit::print".to_string());
                }
                if full.is_some() && want.is_none() {
                    self.stats.bump("c19.nul_in_text");
                    self.fail(th, MErr::InvalidArgument);
                    self.check_error_channel(th, "biscuit_print of text holding a NUL");
                }
            }
            Op::TokenAuthorizer { t } => {
                let ti = match pick!(self.slots.t, *t) {
                    Some(a) => a,
                    None => return,
                };
                let tp = if null { 0 } else { self.slots.t[ti].0 };
                if tp == 0 && !null {
                    return;
                }
                let r = on(self.callers, th, Box::new(move || Res::Ptr(unsafe { c::biscuit_authorizer((tp as *const c::Biscuit).as_ref()) }.map(|b| Box::into_raw(b) as usize).unwrap_or(0))));
                let ptr = if let Res::Ptr(x) = r { x } else { 0 };
                self.stats.oracle_evals += 1;
                let model: Result<Authorizer, MErr> = if tp == 0 {
                    Err(MErr::InvalidArgument)
                } else {
                    match self.slots.t[ti].1.as_ref() {
                        Some(tok) => tok.authorizer().map_err(MErr::Lib),
                        None => return,
                    }
                };
                match model {
                    Ok(a) => {
                        if ptr == 0 {
                            self.violate("capi-differs", "biscuit_authorizer returns NULL, Rust builds one".to_string());
                        }
                        self.slots.a.push((ptr, Some(a)));
                    }
                    Err(e) => {
                        if ptr != 0 {
                            self.violate("capi-differs", "biscuit_authorizer returns a handle, Rust fails".to_string());
                        }
                        self.fail(th, e);
                        self.check_error_channel(th, "biscuit_authorizer that must fail");
                    }
                }
            }
            Op::ABuilderNew => {
                let r = on(self.callers, th, Box::new(|| Res::Ptr(unsafe { c::authorizer_builder() }.map(|b| Box::into_raw(b) as usize).unwrap_or(0))));
                let ptr = if let Res::Ptr(x) = r { x } else { 0 };
                self.slots.ab.push((ptr, Some(AuthorizerBuilder::new())));
            }
            Op::ABuilderAdd { ab, kind, text } => {
                let idx = match pick!(self.slots.ab, *ab) {
                    Some(i) => i,
                    None => return,
                };
                let p = if null { 0 } else { self.slots.ab[idx].0 };
                if p == 0 && !null {
                    return;
                }
                let cs = CString::new(text.clone()).unwrap_or_default();
                let k = *kind;
                let r = on(
                    self.callers,
                    th,
                    Box::new(move || {
                        let bp = unsafe { (p as *mut c::AuthorizerBuilder).as_mut() };
                        Res::Bool(unsafe {
                            match k {
                                Kind::Fact => c::authorizer_builder_add_fact(bp, cs.as_ptr()),
                                Kind::Rule => c::authorizer_builder_add_rule(bp, cs.as_ptr()),
                                Kind::Check => c::authorizer_builder_add_check(bp, cs.as_ptr()),
                                Kind::Policy => c::authorizer_builder_add_policy(bp, cs.as_ptr()),
                            }
                        })
                    }),
                );
                self.stats.oracle_evals += 1;
                if p == 0 {
                    self.fail(th, MErr::InvalidArgument);
                    self.check_error_channel(th, "authorizer_builder_add_*(NULL)");
                    return;
                }
                let m = self.slots.ab[idx].1.clone().unwrap_or_default();
                let res = match k {
                    Kind::Fact => m.fact(text.as_str()),
                    Kind::Rule => m.rule(text.as_str()),
                    Kind::Check => m.check(text.as_str()),
                    Kind::Policy => m.policy(text.as_str()),
                };
                match res {
                    Ok(m2) => {
                        self.slots.ab[idx].1 = Some(m2);
                        if r != Res::Bool(true) {
                            self.violate("capi-differs", format!("authorizer_builder_add_{k:?} refuses `{text}` that the Rust builder accepts"));
                        }
                    }
                    Err(e) => {
                        self.stats.bump("fault.invalid_datalog");
                        if r != Res::Bool(false) {
                            self.violate("capi-differs", format!("authorizer_builder_add_{k:?} accepts `{text}` that the Rust builder refuses"));
                        }
                        self.fail(th, MErr::Lib(e));
                        self.check_error_channel(th, "authorizer_builder_add_* with invalid Datalog");
                    }
                }
            }
            Op::ABuilderBuild { ab, t } => {
                let (ai, ti) = match (pick!(self.slots.ab, *ab), pick!(self.slots.t, *t)) {
                    (Some(a), Some(b)) => (a, b),
                    _ => return,
                };
                let tp = self.slots.t[ti].0;
                if tp == 0 {
                    return;
                }
                let p = if null { 0 } else { self.slots.ab[ai].0 };
                if p == 0 && !null {
                    return;
                }
                let r = on(
                    self.callers,
                    th,
                    Box::new(move || {
                        let b = if p == 0 { None } else { Some(unsafe { Box::from_raw(p as *mut c::AuthorizerBuilder) }) };
                        Res::Ptr(unsafe { c::authorizer_builder_build(b, &*(tp as *const c::Biscuit)) }.map(|b| Box::into_raw(b) as usize).unwrap_or(0))
                    }),
                );
                let ptr = if let Res::Ptr(x) = r { x } else { 0 };
                self.stats.oracle_evals += 1;
                let model: Result<Authorizer, MErr> = if p == 0 {
                    Err(MErr::InvalidArgument)
                } else {
                    match (self.slots.ab[ai].1.clone(), self.slots.t[ti].1.as_ref()) {
                        (Some(m), Some(tok)) => m.build(tok).map_err(MErr::Lib),
                        _ => return,
                    }
                };
                if p != 0 {
                    // the builder is consumed
                    self.slots.ab[ai] = (0, None);
                }
                match model {
                    Ok(a) => {
                        if ptr == 0 {
                            self.violate("capi-differs", "authorizer_builder_build returns NULL, Rust builds one".to_string());
                        }
                        self.slots.a.push((ptr, Some(a)));
                    }
                    Err(e) => {
                        if ptr != 0 {
                            self.violate("capi-differs", "authorizer_builder_build returns a handle, Rust fails".to_string());
                        }
                        self.fail(th, e);
                        self.check_error_channel(th, "authorizer_builder_build that must fail");
                    }
                }
            }
            Op::ABuilderBuildUnauth { ab } => {
                let ai = match pick!(self.slots.ab, *ab) {
                    Some(a) => a,
                    None => return,
                };
                let p = if null { 0 } else { self.slots.ab[ai].0 };
                if p == 0 && !null {
                    return;
                }
                let r = on(
                    self.callers,
                    th,
                    Box::new(move || {
                        let b = if p == 0 { None } else { Some(unsafe { Box::from_raw(p as *mut c::AuthorizerBuilder) }) };
                        Res::Ptr(unsafe { c::authorizer_builder_build_unauthenticated(b) }.map(|b| Box::into_raw(b) as usize).unwrap_or(0))
                    }),
                );
                let ptr = if let Res::Ptr(x) = r { x } else { 0 };
                self.stats.oracle_evals += 1;
                let model: Result<Authorizer, MErr> = if p == 0 {
                    Err(MErr::InvalidArgument)
                } else {
                    match self.slots.ab[ai].1.clone() {
                        Some(m) => m.build_unauthenticated().map_err(MErr::Lib),
                        None => return,
                    }
                };
                if p != 0 {
                    self.slots.ab[ai] = (0, None);
                }
                match model {
                    Ok(a) => {
                        if ptr == 0 {
                            self.violate("capi-differs", "authorizer_builder_build_unauthenticated returns NULL, Rust builds one".to_string());
                        }
                        self.slots.a.push((ptr, Some(a)));
                    }
                    Err(e) => {
                        self.fail(th, e);
                        self.check_error_channel(th, "authorizer_builder_build_unauthenticated that must fail");
                    }
                }
            }
            Op::Authorize { a } => {
                let ai = match pick!(self.slots.a, *a) {
                    Some(x) => x,
                    None => return,
                };
                let p = if null { 0 } else { self.slots.a[ai].0 };
                if p == 0 && !null {
                    return;
                }
                let r = on(self.callers, th, Box::new(move || Res::Bool(unsafe { c::authorizer_authorize((p as *mut c::Authorizer).as_mut()) })));
                self.stats.oracle_evals += 1;
                if p == 0 {
                    if r != Res::Bool(false) {
                        self.violate("capi-differs", "authorizer_authorize(NULL) succeeds".to_string());
                    }
                    self.fail(th, MErr::InvalidArgument);
                    self.check_error_channel(th, "authorizer_authorize(NULL)");
                    return;
                }
                biscuit_auth::verif::install_clock(biscuit_auth::verif::ClockScript::default());
                let want = match self.slots.a[ai].1.as_mut() {
                    Some(m) => m.authorize(),
                    None => return,
                };
                match want {
                    Ok(_) => {
                        self.stats.bump("c19.authorized");
                        if r != Res::Bool(true) {
                            self.violate("capi-differs", "authorizer_authorize refuses, Rust authorizes".to_string());
                        }
                    }
                    Err(e) => {
                        self.stats.bump("c19.refused");
                        if r != Res::Bool(false) {
                            self.violate("capi-differs", format!("authorizer_authorize succeeds, Rust refuses with {e:?}"));
                        }
                        self.fail(th, MErr::Lib(e));
                        self.check_error_channel(th, "authorizer_authorize refused");
                        self.other_threads_unaffected(th);
                    }
                }
            }
            Op::AuthorizerPrint { a } => {
                let ai = match pick!(self.slots.a, *a) {
                    Some(x) => x,
                    None => return,
                };
                let p = self.slots.a[ai].0;
                if p == 0 {
                    return;
                }
                let r = on(
                    self.callers,
                    th,
                    Box::new(move || unsafe {
                        let s = c::authorizer_print((p as *mut c::Authorizer).as_mut());
                        let out = read_cstr(s);
                        c::string_free(s);
                        Res::Str(out)
                    }),
                );
                self.stats.oracle_evals += 1;
                let full = self.slots.a[ai].1.as_ref().map(|m| m.print_world());
                let want = c_view(full.clone());
                if r != Res::Str(want.clone()) {
                    self.violate("capi-differs", "authorizer_print differs from Authorizer::print_world".to_string());
                }
                if full.is_some() && want.is_none() {
                    // text that no C string can carry: refused through the error channel
                    self.stats.bump("c19.nul_in_text");
                    self.fail(th, MErr::InvalidArgument);
                    self.check_error_channel(th, "authorizer_print of text holding a NUL");
                }
            }
            Op::ErrorProbe => {
                self.stats.bump("c19.error_probe");
                self.check_error_channel(th, "error accessors");
            }
        }
    }

    fn free_all(&mut self) {
        let s = std::mem::take(&mut self.slots);
        let ptrs: (Vec<usize>, Vec<usize>, Vec<usize>, Vec<usize>, Vec<usize>, Vec<usize>, Vec<usize>) = (
            s.kp.iter().map(|x| x.0).collect(),
            s.pk.iter().map(|x| x.0).collect(),
            s.b.iter().map(|x| x.0).collect(),
            s.l.iter().map(|x| x.0).collect(),
            s.t.iter().map(|x| x.0).collect(),
            s.ab.iter().map(|x| x.0).collect(),
            s.a.iter().map(|x| x.0).collect(),
        );
        on(
            self.callers,
            0,
            Box::new(move || unsafe {
                for p in ptrs.6 {
                    c::authorizer_free(if p == 0 { None } else { Some(Box::from_raw(p as *mut c::Authorizer)) });
                }
                for p in ptrs.5 {
                    c::authorizer_builder_free(if p == 0 { None } else { Some(Box::from_raw(p as *mut c::AuthorizerBuilder)) });
                }
                for p in ptrs.4 {
                    c::biscuit_free(if p == 0 { None } else { Some(Box::from_raw(p as *mut c::Biscuit)) });
                }
                for p in ptrs.3 {
                    c::block_builder_free(if p == 0 { None } else { Some(Box::from_raw(p as *mut c::BlockBuilder)) });
                }
                for p in ptrs.2 {
                    c::biscuit_builder_free(if p == 0 { None } else { Some(Box::from_raw(p as *mut c::BiscuitBuilder)) });
                }
                for p in ptrs.1 {
                    c::public_key_free(if p == 0 { None } else { Some(Box::from_raw(p as *mut c::PublicKey)) });
                }
                for p in ptrs.0 {
                    c::key_pair_free(if p == 0 { None } else { Some(Box::from_raw(p as *mut c::KeyPair)) });
                }
                Res::Unit
            }),
        );
    }
}

fn gen_text(rng: &mut Rng, kind: Kind) -> String {
    match kind {
        Kind::Fact => rng.pick(FACTS).to_string(),
        Kind::Rule => rng.pick(RULES).to_string(),
        Kind::Check => rng.pick(CHECKS).to_string(),
        Kind::Policy => rng.pick(POLICIES).to_string(),
    }
}

impl Engine for CapiEngine {
    type Case = CapiCase;
    fn name(&self) -> &'static str {
        "capi"
    }
    fn property(&self) -> &str {
        "C19"
    }
    fn isolate(&self) -> bool {
        true
    }
    fn generate(&self, run_seed: u64) -> CapiCase {
        let mut rng = Rng::derive(run_seed, "capi", 0);
        let threads = rng.range(1, 3);
        let mut calls: Vec<Call> = Vec::new();
        let mut push = |rng: &mut Rng, op: Op, calls: &mut Vec<Call>| {
            calls.push(Call { thread: rng.below(threads), null: rng.chance(1, 25), op });
        };
        // a productive skeleton first, then random calls
        let p256 = rng.chance(1, 4);
        let s0 = rng.below(250) as u8;
        push(&mut rng, Op::KeyPairNew { alg: if p256 { Alg::P256 } else { Alg::Ed25519 }, seed: s0, seed_len: 32 }, &mut calls);
        push(&mut rng, Op::KeyPairPublic { kp: 0 }, &mut calls);
        push(&mut rng, Op::BuilderNew, &mut calls);
        for _ in 0..rng.range(1, 3) {
            let k = *rng.pick(&[Kind::Fact, Kind::Fact, Kind::Rule, Kind::Check]);
            let text = gen_text(&mut rng, k);
            push(&mut rng, Op::BuilderAdd { b: 0, kind: k, text }, &mut calls);
        }
        let s1 = rng.below(250) as u8;
        push(&mut rng, Op::BuilderBuild { b: 0, kp: 0, seed: s1, seed_len: 32 }, &mut calls);
        let n = rng.range(4, 14);
        for _ in 0..n {
            let op = match rng.weighted(&[3, 3, 2, 3, 2, 2, 2, 6, 4, 4, 2, 5, 5, 5, 5, 3, 3, 2, 4, 3, 3, 6, 3, 2, 8, 3, 5]) {
                0 => Op::KeyPairNew { alg: if rng.chance(1, 3) { Alg::P256 } else { Alg::Ed25519 }, seed: rng.below(250) as u8, seed_len: *rng.pick(&[32usize, 32, 32, 16, 0]) },
                1 => Op::KeyPairPublic { kp: rng.below(4) },
                2 => Op::KeyPairRoundTrip { kp: rng.below(4) },
                3 => Op::PublicKeyRoundTrip { pk: rng.below(4) },
                4 => Op::BuilderNew,
                5 => Op::BuilderContext { b: rng.below(3), text: format!("ctx{}", rng.below(3)) },
                6 => Op::BuilderRootKeyId { b: rng.below(3), id: rng.below(5) as u32 },
                7 => {
                    let k = *rng.pick(&[Kind::Fact, Kind::Rule, Kind::Check]);
                    Op::BuilderAdd { b: rng.below(3), kind: k, text: gen_text(&mut rng, k) }
                }
                8 => Op::BuilderBuild { b: rng.below(3), kp: rng.below(4), seed: rng.below(250) as u8, seed_len: *rng.pick(&[32usize, 32, 32, 31]) },
                9 => Op::BlockNew,
                10 => Op::BlockContext { l: rng.below(3), text: format!("bctx{}", rng.below(3)) },
                11 => {
                    let k = *rng.pick(&[Kind::Fact, Kind::Rule, Kind::Check]);
                    Op::BlockAdd { l: rng.below(3), kind: k, text: gen_text(&mut rng, k) }
                }
                12 => Op::Append { t: rng.below(4), l: rng.below(3), kp: rng.below(4) },
                13 => Op::From { t: rng.below(4), pk: rng.below(4), corrupt: rng.chance(1, 3), how: rng.below(6) as u8, sealed: rng.chance(1, 3) },
                14 => Op::Serialize { t: rng.below(4) },
                15 => Op::SerializeSealed { t: rng.below(4) },
                16 => Op::BlockCount { t: rng.below(4) },
                17 => Op::BlockContextGet { t: rng.below(4), i: rng.below(5) as u32 },
                18 => Op::Print { t: rng.below(4) },
                19 => Op::PrintBlockSource { t: rng.below(4), i: *rng.pick(&[0u32, 1, 2, 3, 7, u32::MAX]) },
                20 => Op::TokenAuthorizer { t: rng.below(4) },
                21 => {
                    let k = *rng.pick(&[Kind::Fact, Kind::Rule, Kind::Check, Kind::Policy, Kind::Policy]);
                    Op::ABuilderAdd { ab: rng.below(3), kind: k, text: gen_text(&mut rng, k) }
                }
                22 => Op::ABuilderNew,
                23 => Op::ABuilderBuildUnauth { ab: rng.below(3) },
                24 => Op::Authorize { a: rng.below(4) },
                25 => Op::AuthorizerPrint { a: rng.below(4) },
                _ => match rng.below(5) {
                    0 | 1 => Op::ABuilderBuild { ab: rng.below(3), t: rng.below(4) },
                    2 => Op::FromForeign { kp: rng.below(4), content: rng.below(4) as u8, seed: rng.below(250) as u8 },
                    _ => Op::ErrorProbe,
                },
            };
            let foreign = matches!(op, Op::FromForeign { .. });
            let appended = matches!(op, Op::Append { .. });
            let loaded_sealed = matches!(op, Op::From { sealed: true, corrupt: false, .. });
            push(&mut rng, op, &mut calls);
            if loaded_sealed {
                // what a sealed token must refuse, and what it must still do
                push(&mut rng, Op::SerializeSealed { t: 1000 }, &mut calls);
                push(&mut rng, Op::Serialize { t: 1000 }, &mut calls);
                let (l, kp) = (rng.below(3), rng.below(4));
                push(&mut rng, Op::Append { t: 1000, l, kp }, &mut calls);
            }
            if appended && rng.chance(1, 2) {
                // serialize what was just made, both ways
                push(&mut rng, Op::SerializeSealed { t: 1000 }, &mut calls);
                if rng.chance(1, 2) {
                    push(&mut rng, Op::Serialize { t: 1000 }, &mut calls);
                }
            }
            if foreign {
                // look at what was loaded, and ask a verifier about it
                push(&mut rng, Op::Print { t: 1000 }, &mut calls);
                let (i1, i2) = (rng.below(3) as u32, rng.below(3) as u32);
                push(&mut rng, Op::PrintBlockSource { t: 1000, i: i1 }, &mut calls);
                push(&mut rng, Op::BlockContextGet { t: 1000, i: i2 }, &mut calls);
                push(&mut rng, Op::TokenAuthorizer { t: 1000 }, &mut calls);
                push(&mut rng, Op::Authorize { a: 1000 }, &mut calls);
                push(&mut rng, Op::ErrorProbe, &mut calls);
                push(&mut rng, Op::AuthorizerPrint { a: 1000 }, &mut calls);
            }
        }
        // always end with an authorizer life cycle so that outcomes and error details are compared
        push(&mut rng, Op::ABuilderNew, &mut calls);
        for _ in 0..rng.range(1, 3) {
            let k = *rng.pick(&[Kind::Fact, Kind::Check, Kind::Policy, Kind::Policy]);
            let text = gen_text(&mut rng, k);
            push(&mut rng, Op::ABuilderAdd { ab: 1000, kind: k, text }, &mut calls);
        }
        let t_last = rng.below(4);
        push(&mut rng, Op::ABuilderBuild { ab: 1000, t: t_last }, &mut calls);
        push(&mut rng, Op::Authorize { a: 1000 }, &mut calls);
        push(&mut rng, Op::ErrorProbe, &mut calls);
        CapiCase { threads, calls }
    }

    fn execute(&self, case: &CapiCase) -> CaseResult {
        let callers = spawn_callers(case.threads.max(1));
        let mut ex = Exec {
            callers: &callers,
            slots: Slots::default(),
            model_err: vec![None; case.threads.max(1)],
            out: vec![],
            stats: Stats::default(),
            cur: 0,
            label: String::new(),
        };
        for (i, call) in case.calls.iter().enumerate() {
            ex.run(i, call);
            if !ex.out.is_empty() {
                break;
            }
        }
        ex.free_all();
        let mut res = CaseResult::default();
        res.violations = ex.out;
        res.stats = ex.stats;
        res
    }

    fn shrink(&self, case: &CapiCase) -> Vec<CapiCase> {
        let mut out = Vec::new();
        // cut after the failing call, then drop single calls
        let r = self.execute(case);
        if let Some(at) = r.violations.first().and_then(|v| v.event) {
            if at + 1 < case.calls.len() {
                let mut c = case.clone();
                c.calls.truncate(at + 1);
                out.push(c);
            }
        }
        for i in (0..case.calls.len()).rev() {
            let mut c = case.clone();
            c.calls.remove(i);
            out.push(c);
        }
        if case.threads > 1 {
            let mut c = case.clone();
            c.threads = 1;
            out.push(c);
        }
        for i in 0..case.calls.len() {
            if case.calls[i].null {
                let mut c = case.clone();
                c.calls[i].null = false;
                out.push(c);
            }
        }
        out
    }

    fn split(&self, case: &CapiCase) -> Vec<CapiCase> {
        // prefixes of the history: the shortest one that kills the process is the culprit
        (1..=case.calls.len())
            .map(|n| CapiCase { threads: case.threads, calls: case.calls[..n].to_vec() })
            .collect()
    }

    fn split_is_prefix_chain(&self) -> bool {
        true
    }

    fn describe(&self, case: &CapiCase) -> String {
        let last = case.calls.last();
        let earlier_failure = case.calls.iter().rev().skip(1).any(|c| match &c.op {
            Op::BuilderAdd { text, .. } | Op::BlockAdd { text, .. } | Op::ABuilderAdd { text, .. } => {
                // the texts the builders refuse
                ["right(", "user($x)", "", "can($f) <- ", "bad($x) <- user($y)", "check if", "allow"].contains(&text.as_str())
            }
            _ => false,
        });
        match last {
            Some(c) => {
                let mut s = format!("{:?}", c.op);
                s.truncate(140);
                format!("last-call={}{} after-a-refused-add={}", s, if c.null { " [NULL handle]" } else { "" }, earlier_failure)
            }
            None => String::new(),
        }
    }

    fn reach_probes(&self) -> Vec<&'static str> {
        vec!["fault.null_handle", "fault.invalid_datalog", "fault.index_out_of_range", "c19.authorized", "c19.refused", "c19.error_probe"]
    }
    fn level(&self) -> &'static str {
        "exploration"
    }
    fn rule(&self) -> String {
        "one run = one history of 12..30 C API calls (key pairs of both algorithms, token / block / authorizer builders with valid and invalid Datalog, build, append, from, sizes and serialization sealed or not, accessors with any index, authorizer build / authorize / print, error accessors) issued by 1..3 caller threads under a turn scheduler, with NULL-handle, bad seed length, corrupted token and out-of-range index faults; every result is compared with the Rust API run on the same history with the same seeds, buffers have the announced size plus canaries; runs execute in supervised child processes; non-trivial = at least one comparison; distinct = distinct call-kind sequences".to_string()
    }
    fn assumptions(&self) -> Vec<String> {
        vec![
            "biscuit-capi is linked as a Rust library and its extern \"C\" functions are called directly (same ABI, no C compiler involved)".to_string(),
            "memory safety is observed through canaries around every buffer and the worker's exit status, not a sanitizer".to_string(),
            "error kinds are compared exactly for logic / language / run-limit / argument errors and as 'some Format kind' for format errors".to_string(),
        ]
    }
    fn components_real(&self) -> Vec<&'static str> {
        vec!["biscuit-capi (all entry points used by the histories)", "biscuit-auth behind it"]
    }
    fn components_stubbed(&self) -> Vec<&'static str> {
        vec!["caller threads' scheduler (turn-taking: the simulator decides who runs)", "clock source (frozen virtual clock on every caller thread)"]
    }
}
