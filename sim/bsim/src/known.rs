//! /verif/known-findings.json: genuine defects recorded rather than repaired. Read-only at run
//! time. A violation is suppressed only when an *open* entry matches its property, its class and
//! every structural marker the entry lists (markers are substrings of the violation detail that
//! the oracle computes from the failing input itself). Fixed entries suppress nothing.
use crate::world::Violation;
use serde_json::Value;

#[derive(Clone, Debug, Default)]
pub struct Entry {
    pub property: String,
    pub id: String,
    pub status: String,
    pub class: String,
    pub markers: Vec<String>,
    pub what: String,
}

#[derive(Clone, Debug, Default)]
pub struct Known {
    pub entries: Vec<Entry>,
}

impl Known {
    pub fn matches(&self, v: &Violation) -> Option<String> {
        self.entries
            .iter()
            .find(|e| {
                e.status == "open"
                    && e.property == v.property
                    && e.class == v.class
                    && e.markers.iter().all(|m| v.detail.contains(m))
            })
            .map(|e| e.id.clone())
    }
    pub fn open_for(&self, property: &str) -> Vec<(String, String)> {
        self.entries
            .iter()
            .filter(|e| e.status == "open" && e.property == property)
            .map(|e| (e.id.clone(), e.what.clone()))
            .collect()
    }
}

pub fn load(verif_dir: &str) -> Known {
    let path = format!("{verif_dir}/known-findings.json");
    let text = match std::fs::read_to_string(&path) {
        Ok(t) => t,
        Err(_) => return Known::default(),
    };
    let doc: Value = match serde_json::from_str(&text) {
        Ok(d) => d,
        Err(e) => {
            eprintln!("HARNESS: {path} does not parse: {e}");
            std::process::exit(2);
        }
    };
    let mut entries = Vec::new();
    if let Some(list) = doc["findings"].as_array() {
        for f in list {
            let s = |k: &str| f[k].as_str().unwrap_or("").to_string();
            entries.push(Entry {
                property: s("property"),
                id: s("id"),
                status: s("status"),
                class: s("class"),
                markers: f["markers"]
                    .as_array()
                    .map(|a| a.iter().filter_map(|x| x.as_str().map(|s| s.to_string())).collect())
                    .unwrap_or_default(),
                what: s("what"),
            });
        }
    }
    Known { entries }
}

/// committed regression traces (one per known finding and per fixed defect) for this check
pub fn regress_files(verif_dir: &str, property: &str, engine: &str) -> Vec<(String, Value)> {
    let dir = format!("{verif_dir}/regress");
    let mut out = Vec::new();
    let mut names: Vec<String> = match std::fs::read_dir(&dir) {
        Ok(rd) => rd
            .filter_map(|e| e.ok())
            .map(|e| e.path().to_string_lossy().to_string())
            .filter(|p| p.ends_with(".json"))
            .collect(),
        Err(_) => return out,
    };
    names.sort();
    for p in names {
        if let Ok(text) = std::fs::read_to_string(&p) {
            if let Ok(doc) = serde_json::from_str::<Value>(&text) {
                if doc["property"].as_str() == Some(property) && doc["engine"].as_str() == Some(engine) {
                    out.push((p, doc));
                }
            }
        }
    }
    out
}
