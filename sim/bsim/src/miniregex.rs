//! A small backtracking matcher for the subset of regular expressions the generators emit:
//! literals, `.`, classes `[a-z0-9]` / `[^...]`, groups, alternation, `* + ?`, `^` and `$`.
//! Unanchored search, like `Regex::is_match`. Anything else (escapes, counted repetition,
//! flags) is reported as unsupported and the reference evaluator declines to decide.
#[derive(Debug, Clone)]
enum Node {
    Char(char),
    Any,
    Class(Vec<(char, char)>, bool),
    Start,
    End,
    Group(Box<Node>),
    Alt(Vec<Node>),
    Seq(Vec<Node>),
    Star(Box<Node>),
    Plus(Box<Node>),
    Opt(Box<Node>),
}

struct Parser<'a> {
    c: std::iter::Peekable<std::str::Chars<'a>>,
}

impl<'a> Parser<'a> {
    fn alt(&mut self) -> Result<Node, String> {
        let mut alts = vec![self.seq()?];
        while self.c.peek() == Some(&'|') {
            self.c.next();
            alts.push(self.seq()?);
        }
        Ok(if alts.len() == 1 { alts.pop().unwrap() } else { Node::Alt(alts) })
    }
    fn seq(&mut self) -> Result<Node, String> {
        let mut items = Vec::new();
        while let Some(&ch) = self.c.peek() {
            if ch == '|' || ch == ')' {
                break;
            }
            let atom = self.atom()?;
            let atom = match self.c.peek() {
                Some('*') => {
                    self.c.next();
                    Node::Star(Box::new(atom))
                }
                Some('+') => {
                    self.c.next();
                    Node::Plus(Box::new(atom))
                }
                Some('?') => {
                    self.c.next();
                    Node::Opt(Box::new(atom))
                }
                Some('{') => return Err("counted repetition".to_string()),
                _ => atom,
            };
            // lazy / possessive suffixes are outside the subset
            if matches!(self.c.peek(), Some('?') | Some('+') | Some('*')) {
                return Err("stacked quantifier".to_string());
            }
            items.push(atom);
        }
        Ok(Node::Seq(items))
    }
    fn atom(&mut self) -> Result<Node, String> {
        match self.c.next() {
            Some('.') => Ok(Node::Any),
            Some('^') => Ok(Node::Start),
            Some('$') => Ok(Node::End),
            Some('(') => {
                if self.c.peek() == Some(&'?') {
                    return Err("group flags".to_string());
                }
                let inner = self.alt()?;
                if self.c.next() != Some(')') {
                    return Err("unclosed group".to_string());
                }
                Ok(Node::Group(Box::new(inner)))
            }
            Some('[') => {
                let mut neg = false;
                if self.c.peek() == Some(&'^') {
                    neg = true;
                    self.c.next();
                }
                let mut ranges = Vec::new();
                loop {
                    let a = match self.c.next() {
                        Some(']') if !ranges.is_empty() => break,
                        Some('\\') | Some('[') | None => return Err("class syntax".to_string()),
                        Some(ch) => ch,
                    };
                    if self.c.peek() == Some(&'-') {
                        self.c.next();
                        match self.c.next() {
                            Some(']') | Some('\\') | None => return Err("class syntax".to_string()),
                            Some(b) if b >= a => ranges.push((a, b)),
                            _ => return Err("class range".to_string()),
                        }
                    } else {
                        ranges.push((a, a));
                    }
                }
                Ok(Node::Class(ranges, neg))
            }
            Some('\\') | Some('{') | Some('}') | Some('*') | Some('+') | Some('?') | Some(')') | Some(']') => Err("unsupported syntax".to_string()),
            Some(ch) => Ok(Node::Char(ch)),
            None => Err("unexpected end".to_string()),
        }
    }
}

fn m(node: &Node, s: &[char], i: usize, k: &mut dyn FnMut(usize) -> bool) -> bool {
    match node {
        Node::Char(c) => i < s.len() && s[i] == *c && k(i + 1),
        // `.` does not match a line feed
        Node::Any => i < s.len() && s[i] != '\n' && k(i + 1),
        Node::Class(r, neg) => i < s.len() && (r.iter().any(|(a, b)| s[i] >= *a && s[i] <= *b) != *neg) && k(i + 1),
        Node::Start => i == 0 && k(i),
        Node::End => i == s.len() && k(i),
        Node::Group(n) => m(n, s, i, k),
        Node::Alt(v) => v.iter().any(|n| m(n, s, i, k)),
        Node::Seq(v) => seq(v, s, i, k),
        Node::Opt(n) => m(n, s, i, k) || k(i),
        Node::Star(n) => star(n, s, i, k),
        Node::Plus(n) => m(n, s, i, &mut |j| star(n, s, j, k)),
    }
}

fn star(n: &Node, s: &[char], i: usize, k: &mut dyn FnMut(usize) -> bool) -> bool {
    // an iteration that consumes nothing cannot help
    m(n, s, i, &mut |j| j > i && star(n, s, j, k)) || k(i)
}

fn seq(v: &[Node], s: &[char], i: usize, k: &mut dyn FnMut(usize) -> bool) -> bool {
    match v.split_first() {
        None => k(i),
        Some((first, rest)) => m(first, s, i, &mut |j| seq(rest, s, j, k)),
    }
}

/// Ok(is there a match anywhere in `text`), Err(why the pattern is outside the subset)
pub fn is_match(pattern: &str, text: &str) -> Result<bool, String> {
    let mut p = Parser { c: pattern.chars().peekable() };
    let node = p.alt()?;
    if p.c.next().is_some() {
        return Err("unbalanced parenthesis".to_string());
    }
    let s: Vec<char> = text.chars().collect();
    for start in 0..=s.len() {
        if m(&node, &s, start, &mut |_| true) {
            return Ok(true);
        }
    }
    Ok(false)
}

#[cfg(test)]
mod tests {
    use super::is_match;
    #[test]
    fn subset() {
        assert_eq!(is_match("^file", "file1"), Ok(true));
        assert_eq!(is_match("^file", "a file"), Ok(false));
        assert_eq!(is_match("file[0-9]$", "/a/file2"), Ok(true));
        assert_eq!(is_match("^(read|write)$", "write"), Ok(true));
        assert_eq!(is_match("^(read|write)$", "rewrite"), Ok(false));
        assert_eq!(is_match("[a-z]+[12]", "file1"), Ok(true));
        assert_eq!(is_match("^x?$", ""), Ok(true));
        assert_eq!(is_match("", "anything"), Ok(true));
        assert!(is_match("a{2}", "aa").is_err());
        assert!(is_match("\\d", "1").is_err());
    }
}
