//! Typed generators for blocks, authorizers and queries. Every choice comes from the Rng passed
//! in. Programs are error-free by construction unless `cfg.errors` is set.
use crate::ast::*;
use crate::rng::Rng;
use std::collections::{BTreeMap, BTreeSet};

#[derive(Clone, Copy, Debug, PartialEq, Eq)]
pub enum Ty {
    Int,
    BigInt,
    Str,
    Date,
    Bytes,
    Bool,
    SetInt,
    SetStr,
    ArrInt,
    MapStrInt,
    Any,
}

pub struct Sig {
    pub name: &'static str,
    pub args: &'static [Ty],
}

/// the fixed predicate vocabulary: names overlap the default symbol table on purpose
pub const SIGS: &[Sig] = &[
    Sig { name: "right", args: &[Ty::Str, Ty::Str] },
    Sig { name: "resource", args: &[Ty::Str] },
    Sig { name: "operation", args: &[Ty::Str] },
    Sig { name: "user", args: &[Ty::Int] },
    Sig { name: "owner", args: &[Ty::Str, Ty::Int] },
    Sig { name: "edge", args: &[Ty::Int, Ty::Int] },
    Sig { name: "path", args: &[Ty::Int, Ty::Int] },
    Sig { name: "can", args: &[Ty::Str] },
    Sig { name: "ok", args: &[Ty::Int] },
    Sig { name: "flag", args: &[] },
    Sig { name: "time", args: &[Ty::Date] },
    Sig { name: "big", args: &[Ty::BigInt] },
    Sig { name: "blob", args: &[Ty::Bytes] },
    Sig { name: "enabled", args: &[Ty::Bool] },
    Sig { name: "tags", args: &[Ty::SetStr] },
    Sig { name: "nums", args: &[Ty::SetInt] },
    Sig { name: "list", args: &[Ty::ArrInt] },
    Sig { name: "attrs", args: &[Ty::MapStrInt] },
    Sig { name: "data", args: &[Ty::Any] },
    Sig { name: "grant", args: &[Ty::Str, Ty::Int, Ty::Str] },
    // the same names with another arity: distinct predicates that must never match each other
    Sig { name: "right", args: &[Ty::Str] },
    Sig { name: "user", args: &[Ty::Int, Ty::Int] },
    Sig { name: "edge", args: &[Ty::Int] },
    Sig { name: "resource", args: &[Ty::Str, Ty::Str] },
];

const CORE: &[usize] = &[0, 1, 2, 3, 4, 5, 6, 7, 8, 9];
const V30_EXTRA: &[usize] = &[10, 11, 12, 13, 14, 15, 19];
const V33_EXTRA: &[usize] = &[16, 17, 18];
const OVERLOADS: &[usize] = &[20, 21, 22, 23];

pub const STRINGS: &[&str] = &[
    "read", "write", "resource", "file1", "file2", "/a/file", "admin", "x",
];
/// the default symbol table of the specification
pub const DEFAULT_SYMBOL_STRINGS: &[&str] = &[
    "read", "write", "resource", "operation", "right", "time", "role", "owner", "tenant", "namespace", "user", "team", "service", "admin", "email", "group",
    "member", "ip_address", "client", "client_ip", "domain", "path", "version", "cluster", "node", "hostname", "nonce", "query",
];
/// patterns within the subset of regular expressions the reference evaluator implements
pub const REGEXES: &[&str] = &["^file", "file[0-9]$", "^/a/.*", "re.d", "e$", "^x?$", "[a-z]+[12]", "^(read|write)$", "i"];
pub const INTS: &[i64] = &[-2, -1, 0, 1, 2, 3];
pub const BIGS: &[i64] = &[i64::MIN, i64::MAX, 0, 1 << 40];
pub const DATES: &[u64] = &[0, 1_600_000_000, 1_900_000_000];

#[derive(Clone, Debug)]
pub struct GenCfg {
    /// allow Datalog 3.1 features (scopes, check all, !==, bitwise)
    pub v31: bool,
    /// allow Datalog 3.3 features
    pub v33: bool,
    /// allow scopes at all
    pub scopes: bool,
    /// keys that `trusting <key>` may name
    pub keys: Vec<PubKey>,
    /// allow expressions that fail for some bindings (division by zero, overflow, type errors)
    pub errors: bool,
    /// allow strict boolean operators that the parser cannot express
    pub strict_bool: bool,
    pub max_facts: usize,
    pub max_rules: usize,
    pub max_checks: usize,
    /// restricts strings / ints to small per-scenario subsets so that joins hit
    pub strings: Vec<&'static str>,
    pub ints: Vec<i64>,
    pub allow_previous: bool,
    /// use predicate names with more than one arity
    pub overloads: bool,
}

impl GenCfg {
    pub fn new(rng: &mut Rng) -> GenCfg {
        let mut strings: Vec<&'static str> = STRINGS.to_vec();
        rng.shuffle(&mut strings);
        strings.truncate(rng.range(2, 4));
        // every string of the default symbol table turns up in some run
        if rng.chance(1, 2) {
            strings.push(*rng.pick(DEFAULT_SYMBOL_STRINGS));
        }
        let mut ints = INTS.to_vec();
        rng.shuffle(&mut ints);
        ints.truncate(rng.range(2, 4));
        GenCfg {
            v31: rng.chance(3, 4),
            v33: rng.chance(1, 2),
            scopes: rng.chance(1, 2),
            keys: vec![],
            errors: false,
            strict_bool: rng.chance(1, 4),
            // sizes vary per run (swarm style): most runs are small, some are dense
            max_facts: *rng.pick(&[2usize, 5, 5, 5, 9]),
            max_rules: *rng.pick(&[1usize, 2, 2, 2, 4]),
            max_checks: *rng.pick(&[1usize, 2, 2, 2, 4]),
            strings,
            ints,
            allow_previous: true,
            overloads: rng.chance(1, 3),
        }
    }
}

/// facts that exist somewhere in the scenario, used to make rules and checks relevant
#[derive(Clone, Debug, Default)]
pub struct Pool {
    pub facts: Vec<Pred>,
    /// rules written anywhere in the scenario so far: later rules chain on their heads or
    /// derive the same heads by a shorter route
    pub rules: Vec<Rule>,
}

pub struct Gen<'a> {
    pub rng: &'a mut Rng,
    pub cfg: &'a GenCfg,
    pub pool: &'a mut Pool,
}

struct VarEnv {
    vars: Vec<(String, Ty)>,
}

impl VarEnv {
    fn of(&self, ty: Ty) -> Vec<String> {
        self.vars
            .iter()
            .filter(|(_, t)| *t == ty)
            .map(|(n, _)| n.clone())
            .collect()
    }
    fn fresh(&mut self, ty: Ty) -> String {
        let prefix = match ty {
            Ty::Int => "i",
            Ty::BigInt => "b",
            Ty::Str => "s",
            Ty::Date => "d",
            Ty::Bytes => "y",
            Ty::Bool => "o",
            Ty::SetInt => "ni",
            Ty::SetStr => "ns",
            Ty::ArrInt => "ar",
            Ty::MapStrInt => "mp",
            Ty::Any => "a",
        };
        let n = self.vars.iter().filter(|(_, t)| *t == ty).count();
        let name = format!("{prefix}{n}");
        self.vars.push((name.clone(), ty));
        name
    }
}

impl<'a> Gen<'a> {
    fn sig_indices(&mut self) -> Vec<usize> {
        let mut v = CORE.to_vec();
        v.extend_from_slice(V30_EXTRA);
        if self.cfg.v33 {
            v.extend_from_slice(V33_EXTRA);
        }
        v
    }

    fn pick_sig(&mut self) -> &'static Sig {
        if self.cfg.overloads && self.rng.chance(1, 5) {
            return &SIGS[*self.rng.pick(OVERLOADS)];
        }
        // core predicates most of the time
        if self.rng.chance(3, 4) {
            &SIGS[*self.rng.pick(CORE)]
        } else {
            let idx = self.sig_indices();
            &SIGS[*self.rng.pick(&idx)]
        }
    }

    pub fn constant(&mut self, ty: Ty) -> Term {
        match ty {
            Ty::Int => Term::Int(*self.rng.pick(&self.cfg.ints)),
            Ty::BigInt => Term::Int(*self.rng.pick(BIGS)),
            Ty::Str => Term::Str(self.rng.pick(&self.cfg.strings).to_string()),
            Ty::Date => Term::Date(*self.rng.pick(DATES)),
            Ty::Bytes => Term::Bytes(if self.rng.chance(1, 2) {
                vec![0xde, 0xad]
            } else {
                vec![]
            }),
            Ty::Bool => Term::Bool(self.rng.chance(1, 2)),
            Ty::SetInt => {
                let n = self.rng.below(3);
                let mut s = BTreeSet::new();
                for _ in 0..n {
                    s.insert(Term::Int(*self.rng.pick(&self.cfg.ints)));
                }
                Term::Set(s)
            }
            Ty::SetStr => {
                let n = self.rng.below(3);
                let mut s = BTreeSet::new();
                for _ in 0..n {
                    s.insert(Term::Str(self.rng.pick(&self.cfg.strings).to_string()));
                }
                Term::Set(s)
            }
            Ty::ArrInt => {
                let n = self.rng.below(3);
                Term::Array(
                    (0..n)
                        .map(|_| Term::Int(*self.rng.pick(&self.cfg.ints)))
                        .collect(),
                )
            }
            Ty::MapStrInt => {
                let n = self.rng.below(3);
                let mut m = BTreeMap::new();
                for _ in 0..n {
                    m.insert(
                        MapKey::Str(self.rng.pick(&self.cfg.strings).to_string()),
                        Term::Int(*self.rng.pick(&self.cfg.ints)),
                    );
                }
                Term::Map(m)
            }
            Ty::Any => {
                let choice = self.rng.below(if self.cfg.v33 { 7 } else { 4 });
                match choice {
                    0 => self.constant(Ty::Int),
                    1 => self.constant(Ty::Str),
                    2 => self.constant(Ty::Bool),
                    3 => self.constant(Ty::Bytes),
                    4 => Term::Null,
                    5 => self.constant(Ty::ArrInt),
                    _ => self.constant(Ty::MapStrInt),
                }
            }
        }
    }

    pub fn fact(&mut self) -> Pred {
        let sig = self.pick_sig();
        let p = Pred {
            name: sig.name.to_string(),
            terms: sig.args.iter().map(|t| self.constant(*t)).collect(),
        };
        self.pool.facts.push(p.clone());
        p
    }

    /// a body atom: either a generalisation of a fact known to exist, or a random pattern
    fn atom(&mut self, env: &mut VarEnv) -> Pred {
        let chained = if !self.pool.rules.is_empty() && self.rng.chance(1, 4) {
            // the head of a rule written elsewhere: derivations that take several iterations
            let r = self.rng.pick(&self.pool.rules).clone();
            SIGS.iter()
                .find(|s| s.name == r.head.name && s.args.len() == r.head.terms.len())
                .map(|sig| (r.head.name.clone(), sig.args.to_vec(), Some(r.head.terms.clone())))
        } else {
            None
        };
        let (name, args, seed_terms): (String, Vec<Ty>, Option<Vec<Term>>) =
            if let Some(c) = chained {
                c
            } else if !self.pool.facts.is_empty() && self.rng.chance(2, 3) {
                let f = self.rng.pick(&self.pool.facts).clone();
                match SIGS.iter().find(|s| s.name == f.name && s.args.len() == f.terms.len()) {
                    Some(sig) => (f.name.clone(), sig.args.to_vec(), Some(f.terms.clone())),
                    None => {
                        let sig = self.pick_sig();
                        (sig.name.to_string(), sig.args.to_vec(), None)
                    }
                }
            } else {
                let sig = self.pick_sig();
                (sig.name.to_string(), sig.args.to_vec(), None)
            };
        let mut terms = Vec::new();
        for (i, ty) in args.iter().enumerate() {
            let roll = self.rng.below(10);
            if roll < 6 {
                // variable: reuse one of the same type or make a fresh one
                let existing = env.of(*ty);
                if !existing.is_empty() && self.rng.chance(1, 2) {
                    terms.push(Term::Var(self.rng.pick(&existing).clone()));
                } else {
                    terms.push(Term::Var(env.fresh(*ty)));
                }
            } else if let Some(seed) = &seed_terms {
                match &seed[i] {
                    Term::Var(_) => terms.push(self.constant(*ty)),
                    t => terms.push(t.clone()),
                }
            } else {
                terms.push(self.constant(*ty));
            }
        }
        Pred { name, terms }
    }

    fn int_operand(&mut self, env: &VarEnv) -> Expr {
        let vars = env.of(Ty::Int);
        if !vars.is_empty() && self.rng.chance(2, 3) {
            Expr::var(self.rng.pick(&vars[..]).as_str())
        } else {
            Expr::val(self.constant(Ty::Int))
        }
    }

    fn str_operand(&mut self, env: &VarEnv) -> Expr {
        let vars = env.of(Ty::Str);
        if !vars.is_empty() && self.rng.chance(2, 3) {
            Expr::var(self.rng.pick(&vars[..]).as_str())
        } else {
            Expr::val(self.constant(Ty::Str))
        }
    }

    /// boolean expression over the variables in scope
    fn bool_expr(&mut self, env: &VarEnv, depth: u32) -> Expr {
        let cfg = self.cfg.clone();
        let mut options: Vec<u32> = vec![0, 1, 2, 3]; // int compare, int arith compare, str method, strict eq
        if cfg.v31 {
            options.push(4); // !== and bitwise
        }
        if cfg.v33 {
            options.extend_from_slice(&[5, 6, 7, 8]);
        }
        if depth < 2 {
            options.push(9); // boolean combination
            options.push(10); // negation
        }
        if !env.of(Ty::SetInt).is_empty() || !env.of(Ty::SetStr).is_empty() {
            options.push(11);
        }
        if !env.of(Ty::Date).is_empty() {
            options.push(12);
        }
        if cfg.errors {
            options.extend_from_slice(&[13, 13, 13]);
        }
        match *self.rng.pick(&options) {
            0 => {
                let op = self.rng.pick(&[BinOp::Lt, BinOp::Gt, BinOp::Le, BinOp::Ge]).clone();
                let l = self.int_operand(env);
                let r = self.int_operand(env);
                Expr::bin(op, l, r)
            }
            1 => {
                // small ints only: no overflow possible; division by a non-zero constant
                let l = self.int_operand(env);
                let arith = match self.rng.below(4) {
                    0 => Expr::bin(BinOp::Add, l, self.int_operand(env)),
                    1 => Expr::bin(BinOp::Sub, l, self.int_operand(env)),
                    2 => Expr::bin(BinOp::Mul, l, self.int_operand(env)),
                    _ => Expr::bin(BinOp::Div, l, Expr::val(Term::Int(2))),
                };
                let op = self.rng.pick(&[BinOp::Lt, BinOp::Ge, BinOp::Eq]).clone();
                Expr::bin(op, arith, Expr::val(self.constant(Ty::Int)))
            }
            2 => {
                if self.rng.chance(1, 3) {
                    // .matches(): a literal pattern, or one computed from the binding
                    let l = self.str_operand(env);
                    let pat = if self.rng.chance(2, 3) {
                        Expr::val(Term::Str(self.rng.pick(REGEXES).to_string()))
                    } else {
                        let p = Expr::val(Term::Str(self.rng.pick(&["^", "^/a/", "^.i", ""]).to_string()));
                        Expr::bin(BinOp::Add, p, self.str_operand(env))
                    };
                    return Expr::bin(BinOp::Regex, l, pat);
                }
                let op = self
                    .rng
                    .pick(&[BinOp::Prefix, BinOp::Suffix, BinOp::Contains])
                    .clone();
                let l = self.str_operand(env);
                let r = self.str_operand(env);
                Expr::bin(op, l, r)
            }
            3 => {
                if self.rng.chance(1, 2) {
                    let l = self.int_operand(env);
                    let r = self.int_operand(env);
                    Expr::bin(BinOp::Eq, l, r)
                } else {
                    let l = self.str_operand(env);
                    let r = self.str_operand(env);
                    Expr::bin(BinOp::Eq, l, r)
                }
            }
            4 => {
                if self.rng.chance(1, 2) {
                    let l = self.str_operand(env);
                    let r = self.str_operand(env);
                    Expr::bin(BinOp::Ne, l, r)
                } else {
                    let op = self
                        .rng
                        .pick(&[BinOp::BitAnd, BinOp::BitOr, BinOp::BitXor])
                        .clone();
                    let l = self.int_operand(env);
                    let r = self.int_operand(env);
                    Expr::bin(BinOp::Eq, Expr::bin(op, l, r), Expr::val(self.constant(Ty::Int)))
                }
            }
            5 => {
                // heterogeneous equality between anything
                let any = env.of(Ty::Any);
                let l = if !any.is_empty() {
                    Expr::var(self.rng.pick(&any[..]).as_str())
                } else {
                    self.int_operand(env)
                };
                let r = Expr::val(self.constant(Ty::Any));
                Expr::bin(
                    if self.rng.chance(1, 2) { BinOp::HEq } else { BinOp::HNe },
                    l,
                    r,
                )
            }
            6 => {
                // .type()
                let any = env.of(Ty::Any);
                let l = if !any.is_empty() {
                    Expr::var(self.rng.pick(&any[..]).as_str())
                } else {
                    self.str_operand(env)
                };
                let tn = *self
                    .rng
                    .pick(&["integer", "string", "bool", "null", "array", "map", "bytes"]);
                Expr::bin(
                    BinOp::Eq,
                    Expr::un(UnOp::TypeOf, l),
                    Expr::val(Term::Str(tn.to_string())),
                )
            }
            7 => {
                // closures over a literal or bound collection
                let arrs = env.of(Ty::ArrInt);
                let sets = env.of(Ty::SetInt);
                let coll = if !arrs.is_empty() && self.rng.chance(1, 2) {
                    Expr::var(self.rng.pick(&arrs[..]).as_str())
                } else if !sets.is_empty() && self.rng.chance(1, 2) {
                    Expr::var(self.rng.pick(&sets[..]).as_str())
                } else if self.rng.chance(1, 2) {
                    Expr::val(self.constant(Ty::ArrInt))
                } else {
                    Expr::val(self.constant(Ty::SetInt))
                };
                let p = format!("p{depth}");
                let body = Expr::bin(
                    self.rng.pick(&[BinOp::Lt, BinOp::Ge, BinOp::Eq]).clone(),
                    Expr::var(&p),
                    self.int_operand(env),
                );
                Expr::bin(
                    if self.rng.chance(1, 2) { BinOp::All } else { BinOp::Any },
                    coll,
                    Expr::Closure(vec![p], Box::new(body)),
                )
            }
            8 => {
                // array / map access: .get() yields null when absent, compared heterogeneously
                if self.rng.chance(1, 2) {
                    let arrs = env.of(Ty::ArrInt);
                    let coll = if !arrs.is_empty() {
                        Expr::var(self.rng.pick(&arrs[..]).as_str())
                    } else {
                        Expr::val(self.constant(Ty::ArrInt))
                    };
                    Expr::bin(
                        BinOp::HEq,
                        Expr::bin(BinOp::Get, coll, Expr::val(Term::Int(self.rng.below(3) as i64))),
                        self.int_operand(env),
                    )
                } else {
                    let maps = env.of(Ty::MapStrInt);
                    let coll = if !maps.is_empty() {
                        Expr::var(self.rng.pick(&maps[..]).as_str())
                    } else {
                        Expr::val(self.constant(Ty::MapStrInt))
                    };
                    Expr::bin(
                        BinOp::HNe,
                        Expr::bin(BinOp::Get, coll, self.str_operand(env)),
                        Expr::val(Term::Null),
                    )
                }
            }
            9 => {
                let l = self.bool_expr(env, depth + 1);
                let r = self.bool_expr(env, depth + 1);
                if cfg.v33 && self.rng.chance(2, 3) {
                    if self.rng.chance(1, 2) {
                        Expr::lazy_and(l, r)
                    } else {
                        Expr::lazy_or(l, r)
                    }
                } else if cfg.strict_bool {
                    Expr::bin(if self.rng.chance(1, 2) { BinOp::And } else { BinOp::Or }, l, r)
                } else {
                    l
                }
            }
            10 => Expr::un(
                UnOp::Negate,
                Expr::un(UnOp::Parens, self.bool_expr(env, depth + 1)),
            ),
            11 => {
                let si = env.of(Ty::SetInt);
                let ss = env.of(Ty::SetStr);
                if !si.is_empty() && (ss.is_empty() || self.rng.chance(1, 2)) {
                    let s = Expr::var(self.rng.pick(&si[..]).as_str());
                    match self.rng.below(3) {
                        0 => Expr::bin(BinOp::Contains, s, self.int_operand(env)),
                        1 => Expr::bin(
                            BinOp::Ge,
                            Expr::un(UnOp::Length, s),
                            Expr::val(Term::Int(1)),
                        ),
                        _ => Expr::bin(
                            BinOp::Contains,
                            Expr::bin(BinOp::Union, s, Expr::val(self.constant(Ty::SetInt))),
                            Expr::val(self.constant(Ty::SetInt)),
                        ),
                    }
                } else {
                    let s = Expr::var(self.rng.pick(&ss[..]).as_str());
                    if self.rng.chance(1, 2) {
                        Expr::bin(BinOp::Contains, s, self.str_operand(env))
                    } else {
                        Expr::bin(
                            BinOp::Eq,
                            Expr::bin(BinOp::Intersection, s, Expr::val(self.constant(Ty::SetStr))),
                            Expr::val(self.constant(Ty::SetStr)),
                        )
                    }
                }
            }
            12 => {
                let d = env.of(Ty::Date);
                Expr::bin(
                    self.rng.pick(&[BinOp::Lt, BinOp::Ge]).clone(),
                    Expr::var(self.rng.pick(&d[..]).as_str()),
                    Expr::val(self.constant(Ty::Date)),
                )
            }
            _ => {
                // error-prone expressions: fail for some bindings, succeed for others
                match self.rng.below(4) {
                    0 => Expr::bin(
                        BinOp::Ge,
                        Expr::bin(BinOp::Div, Expr::val(Term::Int(10)), self.int_operand(env)),
                        Expr::val(Term::Int(0)),
                    ),
                    1 => {
                        let bigs = env.of(Ty::BigInt);
                        let l = if !bigs.is_empty() {
                            Expr::var(self.rng.pick(&bigs[..]).as_str())
                        } else {
                            Expr::val(self.constant(Ty::BigInt))
                        };
                        // every arithmetic operator at the ends of the integer range
                        let op = self.rng.pick(&[BinOp::Add, BinOp::Sub, BinOp::Mul, BinOp::Div]).clone();
                        let r = Expr::val(Term::Int(*self.rng.pick(&[1i64, -1, 0, 2, i64::MIN, i64::MAX])));
                        let (l, r) = if self.rng.chance(1, 4) { (r, l) } else { (l, r) };
                        Expr::bin(BinOp::Gt, Expr::bin(op, l, r), Expr::val(Term::Int(0)))
                    }
                    2 => {
                        // strict equality on an untyped value: type error for some bindings
                        let any = env.of(Ty::Any);
                        let l = if !any.is_empty() {
                            Expr::var(self.rng.pick(&any[..]).as_str())
                        } else {
                            Expr::val(self.constant(Ty::Any))
                        };
                        Expr::bin(BinOp::Eq, l, Expr::val(self.constant(Ty::Int)))
                    }
                    _ => Expr::bin(
                        BinOp::Lt,
                        Expr::bin(BinOp::Mul, self.int_operand(env), Expr::val(Term::Int(i64::MAX))),
                        Expr::val(Term::Int(0)),
                    ),
                }
            }
        }
    }

    pub fn scope_list(&mut self, owner_is_authorizer: bool) -> Vec<Scope> {
        if !self.cfg.scopes || !self.cfg.v31 {
            return vec![];
        }
        let n = self.rng.range(1, 2);
        let mut out = Vec::new();
        for _ in 0..n {
            let mut kinds = vec![0u32];
            if !owner_is_authorizer && self.cfg.allow_previous {
                kinds.push(1);
            }
            if !self.cfg.keys.is_empty() {
                kinds.push(2);
                kinds.push(2);
            }
            let s = match *self.rng.pick(&kinds) {
                0 => Scope::Authority,
                1 => Scope::Previous,
                _ => Scope::Key(self.rng.pick(&self.cfg.keys).clone()),
            };
            if !out.contains(&s) {
                out.push(s);
            }
        }
        out
    }

    fn maybe_scopes(&mut self, owner_is_authorizer: bool) -> Vec<Scope> {
        if self.rng.chance(1, 4) {
            self.scope_list(owner_is_authorizer)
        } else {
            vec![]
        }
    }

    /// body of a rule / query: atoms, expressions, scopes
    fn body(&mut self, owner_is_authorizer: bool, allow_empty: bool) -> (Vec<Pred>, Vec<Expr>, Vec<Scope>, VarEnv) {
        let mut env = VarEnv { vars: vec![] };
        let natoms = if allow_empty && self.rng.chance(1, 10) {
            0
        } else {
            *self.rng.pick(&[1usize, 1, 1, 2, 2, 3])
        };
        let mut atoms = Vec::new();
        for _ in 0..natoms {
            atoms.push(self.atom(&mut env));
        }
        let nexpr = if natoms == 0 { 1 } else { *self.rng.pick(&[0usize, 0, 1, 1, 2]) };
        let mut exprs = Vec::new();
        for _ in 0..nexpr {
            exprs.push(self.bool_expr(&env, 0));
        }
        let scopes = self.maybe_scopes(owner_is_authorizer);
        (atoms, exprs, scopes, env)
    }

    /// derives the head of a rule written elsewhere directly from base facts: the same fact then
    /// exists under another origin, and usually some iterations earlier
    fn shortcut(&mut self, owner_is_authorizer: bool) -> Option<Rule> {
        let r = self.rng.pick(&self.pool.rules).clone();
        let sig = SIGS.iter().find(|s| s.name == r.head.name && s.args.len() == r.head.terms.len())?;
        let mut env = VarEnv { vars: vec![] };
        let mut renamed: BTreeMap<String, String> = BTreeMap::new();
        let mut terms = Vec::new();
        let mut body = Vec::new();
        for (t, ty) in r.head.terms.iter().zip(sig.args) {
            match t {
                Term::Var(v) => {
                    if let Some(n) = renamed.get(v) {
                        terms.push(Term::Var(n.clone()));
                        continue;
                    }
                    let n = env.fresh(*ty);
                    renamed.insert(v.clone(), n.clone());
                    terms.push(Term::Var(n.clone()));
                    // an atom that binds it: a predicate with an argument of that type
                    let candidates: Vec<&Sig> = SIGS.iter().filter(|s| s.args.contains(ty)).collect();
                    let known: Vec<&Sig> = candidates.iter().copied().filter(|s| self.pool.facts.iter().any(|f| f.name == s.name)).collect();
                    let s = if !known.is_empty() { *self.rng.pick(&known) } else { *self.rng.pick(&candidates) };
                    let mut placed = false;
                    let mut at = Vec::new();
                    for a in s.args {
                        if a == ty && !placed {
                            at.push(Term::Var(n.clone()));
                            placed = true;
                        } else {
                            at.push(Term::Var(env.fresh(*a)));
                        }
                    }
                    body.push(Pred { name: s.name.to_string(), terms: at });
                }
                c => terms.push(c.clone()),
            }
        }
        if body.is_empty() {
            body.push(self.atom(&mut env));
        }
        let scopes = self.maybe_scopes(owner_is_authorizer);
        Some(Rule { head: Pred { name: r.head.name.clone(), terms }, body, exprs: vec![], scopes })
    }

    pub fn rule(&mut self, owner_is_authorizer: bool) -> Rule {
        let r = self.rule_inner(owner_is_authorizer);
        self.pool.rules.push(r.clone());
        r
    }

    fn rule_inner(&mut self, owner_is_authorizer: bool) -> Rule {
        if !self.pool.rules.is_empty() && self.rng.chance(1, 5) {
            if let Some(r) = self.shortcut(owner_is_authorizer) {
                return r;
            }
        }
        if self.cfg.errors && self.rng.chance(1, 5) {
            // a projection guarded by an expression that fails for some values of the variable
            // it drops: several bindings, failing and passing, give the same head
            let body_pred = *self.rng.pick(&["edge", "path"]);
            let head_pred = *self.rng.pick(&["ok", "user"]);
            let guard = if self.rng.chance(1, 2) {
                Expr::bin(BinOp::Ge, Expr::bin(BinOp::Div, Expr::val(Term::Int(10)), Expr::var("d")), Expr::val(Term::Int(-100)))
            } else {
                Expr::bin(BinOp::Lt, Expr::bin(BinOp::Mul, Expr::var("d"), Expr::val(Term::Int(i64::MAX))), Expr::val(Term::Int(1)))
            };
            return Rule {
                head: Pred { name: head_pred.to_string(), terms: vec![Term::Var("k".to_string())] },
                body: vec![Pred { name: body_pred.to_string(), terms: vec![Term::Var("k".to_string()), Term::Var("d".to_string())] }],
                exprs: vec![guard],
                scopes: self.maybe_scopes(owner_is_authorizer),
            };
        }
        // (one rule in ten has no body atom: it fires once, whatever the facts)
        let (body, exprs, scopes, env) = self.body(owner_is_authorizer, true);
        // head: a predicate whose arguments can be filled from body variables or constants
        let sig = if self.rng.chance(2, 3) {
            &SIGS[*self.rng.pick(&[0usize, 5, 6, 7, 8, 9, 1, 3])]
        } else {
            self.pick_sig()
        };
        let mut terms = Vec::new();
        for ty in sig.args {
            let vars = env.of(*ty);
            if !vars.is_empty() && self.rng.chance(4, 5) {
                terms.push(Term::Var(self.rng.pick(&vars).clone()));
            } else {
                terms.push(self.constant(*ty));
            }
        }
        Rule {
            head: Pred {
                name: sig.name.to_string(),
                terms,
            },
            body,
            exprs,
            scopes,
        }
    }

    pub fn query(&mut self, owner_is_authorizer: bool) -> Rule {
        let (body, exprs, scopes, _) = self.body(owner_is_authorizer, true);
        Rule {
            head: query_head(),
            body,
            exprs,
            scopes,
        }
    }

    pub fn check(&mut self, owner_is_authorizer: bool) -> Check {
        let mut kinds = vec![CheckKind::One, CheckKind::One];
        if self.cfg.v31 {
            kinds.push(CheckKind::All);
        }
        if self.cfg.v33 {
            kinds.push(CheckKind::Reject);
        }
        let kind = *self.rng.pick(&kinds);
        let n = *self.rng.pick(&[1usize, 1, 2, 2, 3]);
        let mut queries = Vec::new();
        for _ in 0..n {
            let mut q = self.query(owner_is_authorizer);
            if kind == CheckKind::All && q.body.is_empty() {
                // `check all` over an empty body is legal but uninteresting
                q = self.query(owner_is_authorizer);
            }
            queries.push(q);
        }
        Check { kind, queries }
    }

    pub fn policy(&mut self) -> Policy {
        let kind = if self.rng.chance(2, 3) {
            PolicyKind::Allow
        } else {
            PolicyKind::Deny
        };
        let n = *self.rng.pick(&[1usize, 1, 2]);
        Policy {
            kind,
            queries: (0..n).map(|_| self.query(true)).collect(),
        }
    }

    pub fn block(&mut self) -> Block {
        let nf = self.rng.below(self.cfg.max_facts + 1);
        let nr = self.rng.below(self.cfg.max_rules + 1);
        let nc = self.rng.below(self.cfg.max_checks + 1);
        let scopes = if self.rng.chance(1, 6) {
            self.scope_list(false)
        } else {
            vec![]
        };
        let facts: Vec<Pred> = (0..nf).map(|_| self.fact()).collect();
        let mut rules: Vec<Rule> = (0..nr).map(|_| self.rule(false)).collect();
        let mut checks: Vec<Check> = (0..nc).map(|_| self.check(false)).collect();
        // the same derivation written again by another party: one fact under several origins,
        // and a check of this block that depends on its own copy
        if !self.pool.rules.is_empty() && self.rng.chance(1, 5) {
            let r = self.rng.pick(&self.pool.rules).clone();
            if self.rng.chance(2, 3) {
                checks.push(Check {
                    kind: CheckKind::One,
                    queries: vec![Rule { head: query_head(), body: vec![r.head.clone()], exprs: vec![], scopes: vec![] }],
                });
            }
            rules.push(r);
        }
        let context = if self.rng.chance(1, 5) {
            Some(format!("ctx{}", self.rng.below(3)))
        } else {
            None
        };
        Block {
            facts,
            rules,
            checks,
            scopes,
            context,
        }
    }

    pub fn authorizer(&mut self) -> Authorizer {
        let nf = self.rng.below(5);
        let nr = self.rng.below(3);
        let nc = self.rng.below(3);
        let scopes = if self.rng.chance(1, 6) {
            self.scope_list(true)
        } else {
            vec![]
        };
        let facts: Vec<Pred> = (0..nf).map(|_| self.fact()).collect();
        let rules = (0..nr).map(|_| self.rule(true)).collect();
        let checks = (0..nc).map(|_| self.check(true)).collect();
        let np = self.rng.range(0, 3);
        let mut policies: Vec<Policy> = (0..np).map(|_| self.policy()).collect();
        if self.rng.chance(3, 4) {
            policies.push(Policy {
                kind: if self.rng.chance(4, 5) {
                    PolicyKind::Allow
                } else {
                    PolicyKind::Deny
                },
                queries: vec![Rule {
                    head: query_head(),
                    body: vec![],
                    exprs: vec![Expr::val(Term::Bool(true))],
                    scopes: vec![],
                }],
            });
        }
        Authorizer {
            facts,
            rules,
            checks,
            policies,
            scopes,
        }
    }

    /// a rule used with `query` / `query_all`: head has at least one term so results carry data
    pub fn data_query(&mut self) -> Rule {
        let mut r = self.rule(true);
        r.head.name = "q".to_string();
        r
    }
}
