//! The simulator's own Datalog AST. Strings and public keys are kept as what the author wrote,
//! never as symbol-table indices, so nothing here shares code with the library's interning.
use biscuit_auth::builder as b;
use serde::{Deserialize, Serialize};
use std::collections::{BTreeMap, BTreeSet};

#[derive(Clone, Copy, Debug, PartialEq, Eq, PartialOrd, Ord, Hash, Serialize, Deserialize)]
pub enum Alg {
    Ed25519,
    P256,
}

#[derive(Clone, Debug, PartialEq, Eq, PartialOrd, Ord, Hash, Serialize, Deserialize)]
pub struct PubKey {
    pub alg: Alg,
    pub hex: String,
}

impl PubKey {
    pub fn from_lib(k: &biscuit_auth::PublicKey) -> PubKey {
        let alg = match k.algorithm_string() {
            "ed25519" => Alg::Ed25519,
            _ => Alg::P256,
        };
        PubKey {
            alg,
            hex: hex::encode(k.to_bytes()),
        }
    }
    pub fn to_lib(&self) -> biscuit_auth::PublicKey {
        let alg = match self.alg {
            Alg::Ed25519 => b::Algorithm::Ed25519,
            Alg::P256 => b::Algorithm::Secp256r1,
        };
        biscuit_auth::PublicKey::from_bytes(&hex::decode(&self.hex).expect("hex"), alg)
            .expect("valid public key in AST")
    }
    pub fn source(&self) -> String {
        match self.alg {
            Alg::Ed25519 => format!("ed25519/{}", self.hex),
            Alg::P256 => format!("secp256r1/{}", self.hex),
        }
    }
}

#[derive(Clone, Debug, PartialEq, Eq, PartialOrd, Ord, Hash, Serialize, Deserialize)]
pub enum Term {
    Var(String),
    Int(i64),
    Str(String),
    Date(u64),
    Bytes(Vec<u8>),
    Bool(bool),
    Set(BTreeSet<Term>),
    Null,
    Array(Vec<Term>),
    Map(#[serde(with = "map_as_pairs")] BTreeMap<MapKey, Term>),
}

/// JSON object keys must be strings: maps travel as lists of pairs
mod map_as_pairs {
    use super::{MapKey, Term};
    use serde::{Deserialize, Deserializer, Serialize, Serializer};
    use std::collections::BTreeMap;
    pub fn serialize<S: Serializer>(m: &BTreeMap<MapKey, Term>, s: S) -> Result<S::Ok, S::Error> {
        m.iter().collect::<Vec<_>>().serialize(s)
    }
    pub fn deserialize<'de, D: Deserializer<'de>>(d: D) -> Result<BTreeMap<MapKey, Term>, D::Error> {
        Ok(Vec::<(MapKey, Term)>::deserialize(d)?.into_iter().collect())
    }
}

#[derive(Clone, Debug, PartialEq, Eq, PartialOrd, Ord, Hash, Serialize, Deserialize)]
pub enum MapKey {
    Int(i64),
    Str(String),
}

#[derive(Clone, Debug, PartialEq, Eq, PartialOrd, Ord, Hash, Serialize, Deserialize)]
pub struct Pred {
    pub name: String,
    pub terms: Vec<Term>,
}

#[derive(Clone, Debug, PartialEq, Eq, PartialOrd, Ord, Hash, Serialize, Deserialize)]
pub enum UnOp {
    Negate,
    Parens,
    Length,
    TypeOf,
    Ffi(String),
}

#[derive(Clone, Debug, PartialEq, Eq, PartialOrd, Ord, Hash, Serialize, Deserialize)]
pub enum BinOp {
    Lt,
    Gt,
    Le,
    Ge,
    Eq,
    Ne,
    HEq,
    HNe,
    Contains,
    Prefix,
    Suffix,
    Regex,
    Add,
    Sub,
    Mul,
    Div,
    And,
    Or,
    LazyAnd,
    LazyOr,
    Intersection,
    Union,
    BitAnd,
    BitOr,
    BitXor,
    All,
    Any,
    Get,
    Ffi(String),
}

#[derive(Clone, Debug, PartialEq, Eq, PartialOrd, Ord, Hash, Serialize, Deserialize)]
pub enum Expr {
    Value(Term),
    Unary(UnOp, Box<Expr>),
    Binary(BinOp, Box<Expr>, Box<Expr>),
    Closure(Vec<String>, Box<Expr>),
}

#[derive(Clone, Debug, PartialEq, Eq, PartialOrd, Ord, Hash, Serialize, Deserialize)]
pub enum Scope {
    Authority,
    Previous,
    Key(PubKey),
}

#[derive(Clone, Debug, PartialEq, Eq, PartialOrd, Ord, Hash, Serialize, Deserialize)]
pub struct Rule {
    pub head: Pred,
    pub body: Vec<Pred>,
    pub exprs: Vec<Expr>,
    pub scopes: Vec<Scope>,
}

#[derive(Clone, Copy, Debug, PartialEq, Eq, PartialOrd, Ord, Hash, Serialize, Deserialize)]
pub enum CheckKind {
    One,
    All,
    Reject,
}

#[derive(Clone, Debug, PartialEq, Eq, PartialOrd, Ord, Hash, Serialize, Deserialize)]
pub struct Check {
    pub kind: CheckKind,
    pub queries: Vec<Rule>,
}

#[derive(Clone, Copy, Debug, PartialEq, Eq, PartialOrd, Ord, Hash, Serialize, Deserialize)]
pub enum PolicyKind {
    Allow,
    Deny,
}

#[derive(Clone, Debug, PartialEq, Eq, PartialOrd, Ord, Hash, Serialize, Deserialize)]
pub struct Policy {
    pub kind: PolicyKind,
    pub queries: Vec<Rule>,
}

#[derive(Clone, Debug, Default, PartialEq, Eq, Serialize, Deserialize)]
pub struct Block {
    pub facts: Vec<Pred>,
    pub rules: Vec<Rule>,
    pub checks: Vec<Check>,
    pub scopes: Vec<Scope>,
    pub context: Option<String>,
}

#[derive(Clone, Debug, Default, PartialEq, Eq, Serialize, Deserialize)]
pub struct Authorizer {
    pub facts: Vec<Pred>,
    pub rules: Vec<Rule>,
    pub checks: Vec<Check>,
    pub policies: Vec<Policy>,
    pub scopes: Vec<Scope>,
}

pub fn query_head() -> Pred {
    Pred {
        name: "query".to_string(),
        terms: vec![],
    }
}

// ---------------------------------------------------------------------------------------------
// AST -> library builder structures (no parsing involved)

impl Term {
    pub fn to_builder(&self) -> b::Term {
        match self {
            Term::Var(v) => b::Term::Variable(v.clone()),
            Term::Int(i) => b::Term::Integer(*i),
            Term::Str(s) => b::Term::Str(s.clone()),
            Term::Date(d) => b::Term::Date(*d),
            Term::Bytes(x) => b::Term::Bytes(x.clone()),
            Term::Bool(x) => b::Term::Bool(*x),
            Term::Set(s) => b::Term::Set(s.iter().map(|t| t.to_builder()).collect()),
            Term::Null => b::Term::Null,
            Term::Array(a) => b::Term::Array(a.iter().map(|t| t.to_builder()).collect()),
            Term::Map(m) => b::Term::Map(
                m.iter()
                    .map(|(k, v)| {
                        (
                            match k {
                                MapKey::Int(i) => b::MapKey::Integer(*i),
                                MapKey::Str(s) => b::MapKey::Str(s.clone()),
                            },
                            v.to_builder(),
                        )
                    })
                    .collect(),
            ),
        }
    }

    pub fn from_builder(t: &b::Term) -> Result<Term, String> {
        Ok(match t {
            b::Term::Variable(v) => Term::Var(v.clone()),
            b::Term::Integer(i) => Term::Int(*i),
            b::Term::Str(s) => Term::Str(s.clone()),
            b::Term::Date(d) => Term::Date(*d),
            b::Term::Bytes(x) => Term::Bytes(x.clone()),
            b::Term::Bool(x) => Term::Bool(*x),
            b::Term::Set(s) => Term::Set(
                s.iter()
                    .map(Term::from_builder)
                    .collect::<Result<BTreeSet<_>, _>>()?,
            ),
            b::Term::Parameter(p) => return Err(format!("parameter {p}")),
            b::Term::Null => Term::Null,
            b::Term::Array(a) => Term::Array(
                a.iter()
                    .map(Term::from_builder)
                    .collect::<Result<Vec<_>, _>>()?,
            ),
            b::Term::Map(m) => {
                let mut out = BTreeMap::new();
                for (k, v) in m {
                    let k = match k {
                        b::MapKey::Integer(i) => MapKey::Int(*i),
                        b::MapKey::Str(s) => MapKey::Str(s.clone()),
                        b::MapKey::Parameter(p) => return Err(format!("parameter {p}")),
                    };
                    out.insert(k, Term::from_builder(v)?);
                }
                Term::Map(out)
            }
        })
    }
}

impl Pred {
    pub fn new(name: &str, terms: Vec<Term>) -> Pred {
        Pred {
            name: name.to_string(),
            terms,
        }
    }
    pub fn to_builder(&self) -> b::Predicate {
        b::Predicate {
            name: self.name.clone(),
            terms: self.terms.iter().map(|t| t.to_builder()).collect(),
        }
    }
    pub fn to_builder_fact(&self) -> b::Fact {
        b::Fact::new(
            self.name.clone(),
            self.terms.iter().map(|t| t.to_builder()).collect::<Vec<_>>(),
        )
    }
    pub fn from_builder(p: &b::Predicate) -> Result<Pred, String> {
        Ok(Pred {
            name: p.name.clone(),
            terms: p
                .terms
                .iter()
                .map(Term::from_builder)
                .collect::<Result<Vec<_>, _>>()?,
        })
    }
}

impl UnOp {
    fn to_builder(&self) -> b::Unary {
        match self {
            UnOp::Negate => b::Unary::Negate,
            UnOp::Parens => b::Unary::Parens,
            UnOp::Length => b::Unary::Length,
            UnOp::TypeOf => b::Unary::TypeOf,
            UnOp::Ffi(n) => b::Unary::Ffi(n.clone()),
        }
    }
    fn from_builder(u: &b::Unary) -> UnOp {
        match u {
            b::Unary::Negate => UnOp::Negate,
            b::Unary::Parens => UnOp::Parens,
            b::Unary::Length => UnOp::Length,
            b::Unary::TypeOf => UnOp::TypeOf,
            b::Unary::Ffi(n) => UnOp::Ffi(n.clone()),
        }
    }
}

impl BinOp {
    fn to_builder(&self) -> b::Binary {
        use b::Binary as B;
        match self {
            BinOp::Lt => B::LessThan,
            BinOp::Gt => B::GreaterThan,
            BinOp::Le => B::LessOrEqual,
            BinOp::Ge => B::GreaterOrEqual,
            BinOp::Eq => B::Equal,
            BinOp::Ne => B::NotEqual,
            BinOp::HEq => B::HeterogeneousEqual,
            BinOp::HNe => B::HeterogeneousNotEqual,
            BinOp::Contains => B::Contains,
            BinOp::Prefix => B::Prefix,
            BinOp::Suffix => B::Suffix,
            BinOp::Regex => B::Regex,
            BinOp::Add => B::Add,
            BinOp::Sub => B::Sub,
            BinOp::Mul => B::Mul,
            BinOp::Div => B::Div,
            BinOp::And => B::And,
            BinOp::Or => B::Or,
            BinOp::LazyAnd => B::LazyAnd,
            BinOp::LazyOr => B::LazyOr,
            BinOp::Intersection => B::Intersection,
            BinOp::Union => B::Union,
            BinOp::BitAnd => B::BitwiseAnd,
            BinOp::BitOr => B::BitwiseOr,
            BinOp::BitXor => B::BitwiseXor,
            BinOp::All => B::All,
            BinOp::Any => B::Any,
            BinOp::Get => B::Get,
            BinOp::Ffi(n) => B::Ffi(n.clone()),
        }
    }
    fn from_builder(x: &b::Binary) -> BinOp {
        use b::Binary as B;
        match x {
            B::LessThan => BinOp::Lt,
            B::GreaterThan => BinOp::Gt,
            B::LessOrEqual => BinOp::Le,
            B::GreaterOrEqual => BinOp::Ge,
            B::Equal => BinOp::Eq,
            B::NotEqual => BinOp::Ne,
            B::HeterogeneousEqual => BinOp::HEq,
            B::HeterogeneousNotEqual => BinOp::HNe,
            B::Contains => BinOp::Contains,
            B::Prefix => BinOp::Prefix,
            B::Suffix => BinOp::Suffix,
            B::Regex => BinOp::Regex,
            B::Add => BinOp::Add,
            B::Sub => BinOp::Sub,
            B::Mul => BinOp::Mul,
            B::Div => BinOp::Div,
            B::And => BinOp::And,
            B::Or => BinOp::Or,
            B::LazyAnd => BinOp::LazyAnd,
            B::LazyOr => BinOp::LazyOr,
            B::Intersection => BinOp::Intersection,
            B::Union => BinOp::Union,
            B::BitwiseAnd => BinOp::BitAnd,
            B::BitwiseOr => BinOp::BitOr,
            B::BitwiseXor => BinOp::BitXor,
            B::All => BinOp::All,
            B::Any => BinOp::Any,
            B::Get => BinOp::Get,
            B::Ffi(n) => BinOp::Ffi(n.clone()),
        }
    }
}

impl Expr {
    pub fn val(t: Term) -> Expr {
        Expr::Value(t)
    }
    pub fn var(v: &str) -> Expr {
        Expr::Value(Term::Var(v.to_string()))
    }
    pub fn bin(op: BinOp, l: Expr, r: Expr) -> Expr {
        Expr::Binary(op, Box::new(l), Box::new(r))
    }
    pub fn un(op: UnOp, e: Expr) -> Expr {
        Expr::Unary(op, Box::new(e))
    }
    pub fn lazy_and(l: Expr, r: Expr) -> Expr {
        Expr::bin(BinOp::LazyAnd, l, Expr::Closure(vec![], Box::new(r)))
    }
    pub fn lazy_or(l: Expr, r: Expr) -> Expr {
        Expr::bin(BinOp::LazyOr, l, Expr::Closure(vec![], Box::new(r)))
    }

    /// post-order operation list, the wire form of an expression
    pub fn to_ops(&self, out: &mut Vec<b::Op>) {
        match self {
            Expr::Value(t) => out.push(b::Op::Value(t.to_builder())),
            Expr::Unary(op, e) => {
                e.to_ops(out);
                out.push(b::Op::Unary(op.to_builder()));
            }
            Expr::Binary(op, l, r) => {
                l.to_ops(out);
                r.to_ops(out);
                out.push(b::Op::Binary(op.to_builder()));
            }
            Expr::Closure(params, body) => {
                let mut inner = Vec::new();
                body.to_ops(&mut inner);
                out.push(b::Op::Closure(params.clone(), inner));
            }
        }
    }

    pub fn to_builder(&self) -> b::Expression {
        let mut ops = Vec::new();
        self.to_ops(&mut ops);
        b::Expression { ops }
    }

    pub fn from_ops(ops: &[b::Op]) -> Result<Expr, String> {
        let mut stack: Vec<Expr> = Vec::new();
        for op in ops {
            match op {
                b::Op::Value(t) => stack.push(Expr::Value(Term::from_builder(t)?)),
                b::Op::Unary(u) => {
                    let e = stack.pop().ok_or("stack underflow")?;
                    stack.push(Expr::Unary(UnOp::from_builder(u), Box::new(e)));
                }
                b::Op::Binary(x) => {
                    let r = stack.pop().ok_or("stack underflow")?;
                    let l = stack.pop().ok_or("stack underflow")?;
                    stack.push(Expr::Binary(
                        BinOp::from_builder(x),
                        Box::new(l),
                        Box::new(r),
                    ));
                }
                b::Op::Closure(params, inner) => {
                    stack.push(Expr::Closure(
                        params.clone(),
                        Box::new(Expr::from_ops(inner)?),
                    ));
                }
            }
        }
        if stack.len() != 1 {
            return Err(format!("expression leaves {} values", stack.len()));
        }
        Ok(stack.pop().unwrap())
    }
}

impl Scope {
    pub fn to_builder(&self) -> b::Scope {
        match self {
            Scope::Authority => b::Scope::Authority,
            Scope::Previous => b::Scope::Previous,
            Scope::Key(k) => b::Scope::PublicKey(k.to_lib()),
        }
    }
    pub fn from_builder(s: &b::Scope) -> Result<Scope, String> {
        Ok(match s {
            b::Scope::Authority => Scope::Authority,
            b::Scope::Previous => Scope::Previous,
            b::Scope::PublicKey(k) => Scope::Key(PubKey::from_lib(k)),
            b::Scope::Parameter(p) => return Err(format!("scope parameter {p}")),
        })
    }
}

impl Rule {
    pub fn to_builder(&self) -> b::Rule {
        b::Rule::new(
            self.head.to_builder(),
            self.body.iter().map(|p| p.to_builder()).collect(),
            self.exprs.iter().map(|e| e.to_builder()).collect(),
            self.scopes.iter().map(|s| s.to_builder()).collect(),
        )
    }
    pub fn from_builder(r: &b::Rule) -> Result<Rule, String> {
        Ok(Rule {
            head: Pred::from_builder(&r.head)?,
            body: r
                .body
                .iter()
                .map(Pred::from_builder)
                .collect::<Result<Vec<_>, _>>()?,
            exprs: r
                .expressions
                .iter()
                .map(|e| Expr::from_ops(&e.ops))
                .collect::<Result<Vec<_>, _>>()?,
            scopes: r
                .scopes
                .iter()
                .map(Scope::from_builder)
                .collect::<Result<Vec<_>, _>>()?,
        })
    }
}

impl Check {
    pub fn to_builder(&self) -> b::Check {
        b::Check {
            queries: self.queries.iter().map(|q| q.to_builder()).collect(),
            kind: match self.kind {
                CheckKind::One => b::CheckKind::One,
                CheckKind::All => b::CheckKind::All,
                CheckKind::Reject => b::CheckKind::Reject,
            },
        }
    }
    pub fn from_builder(c: &b::Check) -> Result<Check, String> {
        Ok(Check {
            kind: match c.kind {
                b::CheckKind::One => CheckKind::One,
                b::CheckKind::All => CheckKind::All,
                b::CheckKind::Reject => CheckKind::Reject,
            },
            queries: c
                .queries
                .iter()
                .map(Rule::from_builder)
                .collect::<Result<Vec<_>, _>>()?,
        })
    }
}

impl Policy {
    pub fn to_builder(&self) -> b::Policy {
        b::Policy {
            queries: self.queries.iter().map(|q| q.to_builder()).collect(),
            kind: match self.kind {
                PolicyKind::Allow => b::PolicyKind::Allow,
                PolicyKind::Deny => b::PolicyKind::Deny,
            },
        }
    }
    pub fn from_builder(p: &b::Policy) -> Result<Policy, String> {
        Ok(Policy {
            kind: match p.kind {
                b::PolicyKind::Allow => PolicyKind::Allow,
                b::PolicyKind::Deny => PolicyKind::Deny,
            },
            queries: p
                .queries
                .iter()
                .map(Rule::from_builder)
                .collect::<Result<Vec<_>, _>>()?,
        })
    }
}

impl Block {
    /// builds a library BlockBuilder through the builder structures
    pub fn to_builder(&self) -> Result<b::BlockBuilder, biscuit_auth::error::Token> {
        let mut bb = b::BlockBuilder::new();
        for f in &self.facts {
            bb = bb.fact(f.to_builder_fact())?;
        }
        for r in &self.rules {
            bb = bb.rule(r.to_builder())?;
        }
        for c in &self.checks {
            bb = bb.check(c.to_builder())?;
        }
        for s in &self.scopes {
            bb = bb.scope(s.to_builder());
        }
        if let Some(c) = &self.context {
            bb = bb.context(c.clone());
        }
        Ok(bb)
    }

    /// builds a library BlockBuilder by printing Datalog source and parsing it
    pub fn to_builder_via_source(&self) -> Result<b::BlockBuilder, biscuit_auth::error::Token> {
        // `code()` parses a leading `trusting ...;` line but does not keep it: block scopes go
        // through the builder call
        let mut body = self.clone();
        body.scopes = vec![];
        let mut bb = b::BlockBuilder::new().code(body.source())?;
        for s in &self.scopes {
            bb = bb.scope(s.to_builder());
        }
        if let Some(c) = &self.context {
            bb = bb.context(c.clone());
        }
        Ok(bb)
    }

    pub fn source(&self) -> String {
        let mut s = String::new();
        if !self.scopes.is_empty() {
            s.push_str(&format!("trusting {};\n", scopes_source(&self.scopes)));
        }
        for f in &self.facts {
            s.push_str(&format!("{};\n", f.source()));
        }
        for r in &self.rules {
            s.push_str(&format!("{};\n", r.source_rule()));
        }
        for c in &self.checks {
            s.push_str(&format!("{};\n", c.source()));
        }
        s
    }

    pub fn from_builder(bb: &b::BlockBuilder) -> Result<Block, String> {
        Ok(Block {
            facts: bb
                .facts
                .iter()
                .map(|f| Pred::from_builder(&f.predicate))
                .collect::<Result<Vec<_>, _>>()?,
            rules: bb
                .rules
                .iter()
                .map(Rule::from_builder)
                .collect::<Result<Vec<_>, _>>()?,
            checks: bb
                .checks
                .iter()
                .map(Check::from_builder)
                .collect::<Result<Vec<_>, _>>()?,
            scopes: bb
                .scopes
                .iter()
                .map(Scope::from_builder)
                .collect::<Result<Vec<_>, _>>()?,
            context: bb.context.clone(),
        })
    }

    /// true when the block can be expressed in source text and parse back to an equivalent block
    pub fn source_expressible(&self) -> bool {
        let mut ok = true;
        self.visit_exprs(&mut |e| {
            if !expr_source_expressible(e) {
                ok = false;
            }
        });
        // the grammar has no zero-arity predicate
        let arity_ok = self.facts.iter().all(|f| !f.terms.is_empty())
            && self.all_rules().iter().all(|r| {
                r.body.iter().all(|p| !p.terms.is_empty())
                    && (r.head.name == "query" || !r.head.terms.is_empty())
            });
        ok && arity_ok && self.all_terms().iter().all(term_source_expressible)
    }

    pub fn visit_exprs(&self, f: &mut dyn FnMut(&Expr)) {
        for r in &self.rules {
            for e in &r.exprs {
                f(e);
            }
        }
        for c in &self.checks {
            for q in &c.queries {
                for e in &q.exprs {
                    f(e);
                }
            }
        }
    }

    pub fn all_rules(&self) -> Vec<&Rule> {
        let mut v: Vec<&Rule> = self.rules.iter().collect();
        for c in &self.checks {
            for q in &c.queries {
                v.push(q);
            }
        }
        v
    }

    /// every term appearing anywhere in the block (predicates and expression values), not recursed
    pub fn all_terms(&self) -> Vec<Term> {
        let mut out = Vec::new();
        for f in &self.facts {
            out.extend(f.terms.iter().cloned());
        }
        for r in self.all_rules() {
            out.extend(r.head.terms.iter().cloned());
            for p in &r.body {
                out.extend(p.terms.iter().cloned());
            }
            for e in &r.exprs {
                expr_terms(e, &mut out);
            }
        }
        out
    }
}

pub fn expr_terms(e: &Expr, out: &mut Vec<Term>) {
    match e {
        Expr::Value(t) => out.push(t.clone()),
        Expr::Unary(_, x) => expr_terms(x, out),
        Expr::Binary(_, l, r) => {
            expr_terms(l, out);
            expr_terms(r, out);
        }
        Expr::Closure(_, body) => expr_terms(body, out),
    }
}

fn expr_source_expressible(e: &Expr) -> bool {
    match e {
        Expr::Value(_) => true,
        Expr::Unary(_, x) => expr_source_expressible(x),
        // the parser has no syntax for the strict (non lazy) boolean operators
        Expr::Binary(BinOp::And, _, _) | Expr::Binary(BinOp::Or, _, _) => false,
        Expr::Binary(_, l, r) => expr_source_expressible(l) && expr_source_expressible(r),
        Expr::Closure(_, body) => expr_source_expressible(body),
    }
}

fn term_source_expressible(t: &Term) -> bool {
    match t {
        Term::Str(s) => !s.contains('"') && !s.contains('\\') && !s.contains('\n'),
        Term::Bytes(b) => !b.is_empty(),
        Term::Set(s) => s.iter().all(term_source_expressible),
        Term::Array(a) => a.iter().all(term_source_expressible),
        Term::Map(m) => !m.is_empty() && m.iter().all(|(k, v)| {
            (match k {
                MapKey::Str(s) => !s.contains('"') && !s.contains('\\') && !s.contains('\n'),
                _ => true,
            }) && term_source_expressible(v)
        }),
        _ => true,
    }
}

impl Authorizer {
    pub fn to_builder(&self) -> Result<b::AuthorizerBuilder, biscuit_auth::error::Token> {
        let mut ab = b::AuthorizerBuilder::new();
        for f in &self.facts {
            ab = ab.fact(f.to_builder_fact())?;
        }
        for r in &self.rules {
            ab = ab.rule(r.to_builder())?;
        }
        for c in &self.checks {
            ab = ab.check(c.to_builder())?;
        }
        for p in &self.policies {
            ab = ab.policy(p.to_builder())?;
        }
        for s in &self.scopes {
            ab = ab.scope(s.to_builder());
        }
        Ok(ab)
    }

    pub fn source(&self) -> String {
        let mut s = String::new();
        if !self.scopes.is_empty() {
            s.push_str(&format!("trusting {};\n", scopes_source(&self.scopes)));
        }
        for f in &self.facts {
            s.push_str(&format!("{};\n", f.source()));
        }
        for r in &self.rules {
            s.push_str(&format!("{};\n", r.source_rule()));
        }
        for c in &self.checks {
            s.push_str(&format!("{};\n", c.source()));
        }
        for p in &self.policies {
            s.push_str(&format!("{};\n", p.source()));
        }
        s
    }

    pub fn as_block(&self) -> Block {
        Block {
            facts: self.facts.clone(),
            rules: self.rules.clone(),
            checks: self.checks.clone(),
            scopes: self.scopes.clone(),
            context: None,
        }
    }
}

// ---------------------------------------------------------------------------------------------
// AST -> Datalog source text

fn rfc3339(secs: u64) -> String {
    let days = (secs / 86400) as i64;
    let rem = secs % 86400;
    // civil from days (Howard Hinnant)
    let z = days + 719_468;
    let era = if z >= 0 { z } else { z - 146_096 } / 146_097;
    let doe = z - era * 146_097;
    let yoe = (doe - doe / 1460 + doe / 36_524 - doe / 146_096) / 365;
    let y = yoe + era * 400;
    let doy = doe - (365 * yoe + yoe / 4 - yoe / 100);
    let mp = (5 * doy + 2) / 153;
    let d = doy - (153 * mp + 2) / 5 + 1;
    let m = if mp < 10 { mp + 3 } else { mp - 9 };
    let y = if m <= 2 { y + 1 } else { y };
    format!(
        "{:04}-{:02}-{:02}T{:02}:{:02}:{:02}Z",
        y,
        m,
        d,
        rem / 3600,
        (rem % 3600) / 60,
        rem % 60
    )
}

impl Term {
    pub fn source(&self) -> String {
        match self {
            Term::Var(v) => format!("${v}"),
            Term::Int(i) => format!("{i}"),
            Term::Str(s) => format!("\"{s}\""),
            Term::Date(d) => rfc3339(*d),
            Term::Bytes(x) => format!("hex:{}", hex::encode(x)),
            Term::Bool(x) => format!("{x}"),
            Term::Set(s) => {
                if s.is_empty() {
                    "{,}".to_string()
                } else {
                    format!(
                        "{{{}}}",
                        s.iter().map(|t| t.source()).collect::<Vec<_>>().join(", ")
                    )
                }
            }
            Term::Null => "null".to_string(),
            Term::Array(a) => format!(
                "[{}]",
                a.iter().map(|t| t.source()).collect::<Vec<_>>().join(", ")
            ),
            Term::Map(m) => {
                if m.is_empty() {
                    "{}".to_string()
                } else {
                    format!(
                        "{{{}}}",
                        m.iter()
                            .map(|(k, v)| format!(
                                "{}: {}",
                                match k {
                                    MapKey::Int(i) => format!("{i}"),
                                    MapKey::Str(s) => format!("\"{s}\""),
                                },
                                v.source()
                            ))
                            .collect::<Vec<_>>()
                            .join(", ")
                    )
                }
            }
        }
    }
}

impl Pred {
    pub fn source(&self) -> String {
        format!(
            "{}({})",
            self.name,
            self.terms
                .iter()
                .map(|t| t.source())
                .collect::<Vec<_>>()
                .join(", ")
        )
    }
}

impl Expr {
    fn atom(&self) -> String {
        match self {
            Expr::Value(t) => t.source(),
            Expr::Unary(UnOp::Parens, _) => self.source(),
            _ => format!("({})", self.source()),
        }
    }

    pub fn source(&self) -> String {
        match self {
            Expr::Value(t) => t.source(),
            Expr::Unary(op, e) => match op {
                UnOp::Negate => format!("!{}", e.atom()),
                UnOp::Parens => format!("({})", e.source()),
                UnOp::Length => format!("{}.length()", e.atom()),
                UnOp::TypeOf => format!("{}.type()", e.atom()),
                UnOp::Ffi(n) => format!("{}.extern::{}()", e.atom(), n),
            },
            Expr::Binary(op, l, r) => {
                let infix = |s: &str| format!("{} {} {}", l.atom(), s, r.atom());
                let method = |s: &str| format!("{}.{}({})", l.atom(), s, r.source());
                match op {
                    BinOp::Lt => infix("<"),
                    BinOp::Gt => infix(">"),
                    BinOp::Le => infix("<="),
                    BinOp::Ge => infix(">="),
                    BinOp::Eq => infix("==="),
                    BinOp::Ne => infix("!=="),
                    BinOp::HEq => infix("=="),
                    BinOp::HNe => infix("!="),
                    BinOp::Add => infix("+"),
                    BinOp::Sub => infix("-"),
                    BinOp::Mul => infix("*"),
                    BinOp::Div => infix("/"),
                    BinOp::And => infix("&&!"),
                    BinOp::Or => infix("||!"),
                    BinOp::BitAnd => infix("&"),
                    BinOp::BitOr => infix("|"),
                    BinOp::BitXor => infix("^"),
                    BinOp::LazyAnd | BinOp::LazyOr => {
                        let rr = match &**r {
                            Expr::Closure(_, body) => body.atom(),
                            other => other.atom(),
                        };
                        format!(
                            "{} {} {}",
                            l.atom(),
                            if *op == BinOp::LazyAnd { "&&" } else { "||" },
                            rr
                        )
                    }
                    BinOp::Contains => method("contains"),
                    BinOp::Prefix => method("starts_with"),
                    BinOp::Suffix => method("ends_with"),
                    BinOp::Regex => method("matches"),
                    BinOp::Intersection => method("intersection"),
                    BinOp::Union => method("union"),
                    BinOp::Get => method("get"),
                    BinOp::All | BinOp::Any => {
                        let name = if *op == BinOp::All { "all" } else { "any" };
                        match &**r {
                            Expr::Closure(params, body) => format!(
                                "{}.{}(${} -> {})",
                                l.atom(),
                                name,
                                params.first().cloned().unwrap_or_default(),
                                body.source()
                            ),
                            other => format!("{}.{}({})", l.atom(), name, other.source()),
                        }
                    }
                    BinOp::Ffi(n) => format!("{}.extern::{}({})", l.atom(), n, r.source()),
                }
            }
            Expr::Closure(params, body) => format!(
                "${} -> {}",
                params.first().cloned().unwrap_or_default(),
                body.source()
            ),
        }
    }
}

pub fn scopes_source(scopes: &[Scope]) -> String {
    scopes
        .iter()
        .map(|s| match s {
            Scope::Authority => "authority".to_string(),
            Scope::Previous => "previous".to_string(),
            Scope::Key(k) => k.source(),
        })
        .collect::<Vec<_>>()
        .join(", ")
}

impl Rule {
    pub fn body_source(&self) -> String {
        let mut parts: Vec<String> = self.body.iter().map(|p| p.source()).collect();
        parts.extend(self.exprs.iter().map(|e| e.source()));
        let mut s = parts.join(", ");
        if !self.scopes.is_empty() {
            s.push_str(&format!(" trusting {}", scopes_source(&self.scopes)));
        }
        s
    }
    pub fn source_rule(&self) -> String {
        format!("{} <- {}", self.head.source(), self.body_source())
    }
}

impl Check {
    pub fn source(&self) -> String {
        let kw = match self.kind {
            CheckKind::One => "check if",
            CheckKind::All => "check all",
            CheckKind::Reject => "reject if",
        };
        format!(
            "{} {}",
            kw,
            self.queries
                .iter()
                .map(|q| q.body_source())
                .collect::<Vec<_>>()
                .join(" or ")
        )
    }
}

impl Policy {
    pub fn source(&self) -> String {
        let kw = match self.kind {
            PolicyKind::Allow => "allow if",
            PolicyKind::Deny => "deny if",
        };
        format!(
            "{} {}",
            kw,
            self.queries
                .iter()
                .map(|q| q.body_source())
                .collect::<Vec<_>>()
                .join(" or ")
        )
    }
}
