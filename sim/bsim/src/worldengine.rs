//! Engine wrapper for the properties decided on the simulated world (C02, C03, C04, C07, C08,
//! C12, C15, C16): one scenario generator, one executor, per-property monitors and profiles.
use crate::driver::{CaseResult, Engine};
use crate::world::{self, Event, Monitors, Profile, Scenario};

pub struct WorldEngine {
    pub property: String,
    pub profile: Profile,
    pub monitors: Monitors,
}

impl WorldEngine {
    pub fn new(property: &str) -> WorldEngine {
        WorldEngine {
            property: property.to_string(),
            profile: Profile::default_for(property),
            monitors: Monitors::for_property(property),
        }
    }
}

pub fn shrink_scenario(case: &Scenario, focus: Option<usize>) -> Vec<Scenario> {
    let mut out = Vec::new();
    // 1. cut everything after the event where the violation was seen
    if let Some(at) = focus {
        if at + 1 < case.events.len() {
            let mut c = case.clone();
            c.events.truncate(at + 1);
            out.push(c);
        }
    }
    // 2. replace single events by Nop, last first
    for i in (0..case.events.len()).rev() {
        if case.events[i] != Event::Nop && Some(i) != focus {
            let mut c = case.clone();
            c.events[i] = Event::Nop;
            out.push(c);
        }
    }
    // 3. drop trailing Nops
    if matches!(case.events.last(), Some(Event::Nop)) {
        let mut c = case.clone();
        while matches!(c.events.last(), Some(Event::Nop)) {
            c.events.pop();
        }
        out.push(c);
    }
    // 4. simplify block contents
    for i in 0..case.events.len() {
        let block = match &case.events[i] {
            Event::Mint { block, .. } | Event::Attenuate { block, .. } | Event::TpRespond { block, .. } => block.clone(),
            _ => continue,
        };
        let mut variants = Vec::new();
        for k in 0..block.facts.len() {
            let mut b = block.clone();
            b.facts.remove(k);
            variants.push(b);
        }
        for k in 0..block.rules.len() {
            let mut b = block.clone();
            b.rules.remove(k);
            variants.push(b);
        }
        for k in 0..block.checks.len() {
            let mut b = block.clone();
            b.checks.remove(k);
            variants.push(b);
            if block.checks[k].queries.len() > 1 {
                for q in 0..block.checks[k].queries.len() {
                    let mut b = block.clone();
                    b.checks[k].queries.remove(q);
                    variants.push(b);
                }
            }
        }
        if !block.scopes.is_empty() {
            let mut b = block.clone();
            b.scopes.clear();
            variants.push(b);
        }
        if block.context.is_some() {
            let mut b = block.clone();
            b.context = None;
            variants.push(b);
        }
        for nb in variants {
            let mut c = case.clone();
            match &mut c.events[i] {
                Event::Mint { block, .. } | Event::Attenuate { block, .. } | Event::TpRespond { block, .. } => *block = nb,
                _ => {}
            }
            out.push(c);
        }
    }
    // 5. simplify verifiers
    for v in 0..case.verifiers.len() {
        let a = &case.verifiers[v].authorizer;
        let mut variants = Vec::new();
        for k in 0..a.facts.len() {
            let mut x = a.clone();
            x.facts.remove(k);
            variants.push(x);
        }
        for k in 0..a.rules.len() {
            let mut x = a.clone();
            x.rules.remove(k);
            variants.push(x);
        }
        for k in 0..a.checks.len() {
            let mut x = a.clone();
            x.checks.remove(k);
            variants.push(x);
            if a.checks[k].queries.len() > 1 {
                for q in 0..a.checks[k].queries.len() {
                    let mut x = a.clone();
                    x.checks[k].queries.remove(q);
                    variants.push(x);
                }
            }
        }
        for k in 0..a.policies.len() {
            let mut x = a.clone();
            x.policies.remove(k);
            variants.push(x);
        }
        if !a.scopes.is_empty() {
            let mut x = a.clone();
            x.scopes.clear();
            variants.push(x);
        }
        for x in variants {
            let mut c = case.clone();
            c.verifiers[v].authorizer = x;
            out.push(c);
        }
        for q in 0..case.verifiers[v].queries.len() {
            let mut c = case.clone();
            c.verifiers[v].queries.remove(q);
            out.push(c);
        }
    }
    out
}

impl Engine for WorldEngine {
    type Case = Scenario;
    fn name(&self) -> &'static str {
        "world"
    }
    fn property(&self) -> &str {
        &self.property
    }
    fn generate(&self, run_seed: u64) -> Scenario {
        world::generate(run_seed, &self.profile)
    }
    fn execute(&self, case: &Scenario) -> CaseResult {
        let (violations, stats, harness) = world::run_scenario(case, &self.monitors);
        CaseResult {
            violations,
            stats,
            harness,
        }
    }
    fn shrink(&self, case: &Scenario) -> Vec<Scenario> {
        // find where the violation shows up, to cut the tail first
        let r = self.execute(case);
        let first = r.violations.iter().find(|v| v.property == self.property);
        let focus = first.and_then(|v| v.event);
        let mut out = Vec::new();
        // a violation found by the adversary's sweep is reproduced by one fault: pin it first
        if case.focus.is_none() {
            if let Some(f) = first.and_then(|v| v.focus.clone()) {
                let mut c = case.clone();
                c.focus = Some(f);
                out.push(c);
            }
        }
        out.extend(shrink_scenario(case, focus));
        out
    }
    fn fixed_inputs(&self) -> (Vec<(crate::world::Violation, serde_json::Value)>, u64) {
        let repo = std::env::var("REPO_DIR").unwrap_or_else(|_| "/repo".to_string());
        match crate::corpus::library_vs_corpus(&repo, &self.property, None) {
            Ok(x) => x,
            Err(e) => {
                eprintln!("HARNESS: conformance corpus unreadable: {e}");
                (vec![], 0)
            }
        }
    }
    fn reach_probes(&self) -> Vec<&'static str> {
        let mut v = vec!["op.mint.ok", "op.attenuate.ok", "op.tp_attach.ok", "op.seal.ok", "op.reload.ok"];
        match self.property.as_str() {
            "C07" => v.extend_from_slice(&["fault.response", "fault.request", "fault.misdelivered_response", "tp.attach_refused"]),
            "C08" => v.extend_from_slice(&["sealed.append_refused", "sealed.request_refused", "sealed.reseal_refused"]),
            "C16" => v.extend_from_slice(&["reach.sigv1", "reach.sigv0_only"]),
            "C03" => v.extend_from_slice(&["c03.child_allowed"]),
            "C01" => v.extend_from_slice(&[
                "fault.wrong_root", "rejected.pl.flip", "rejected.blk.swap", "rejected.blk.drop", "rejected.blk.drop+proof",
                "rejected.blk.insert_aux", "rejected.nk.rand", "rejected.sig.flip", "rejected.sig.twin", "rejected.ver.set",
                "rejected.ext.del", "rejected.ext.move", "rejected.proof.flip", "rejected.proof.from_aux", "rejected.byte.flip",
                "rejected.byte.trunc", "accepted_legit.kid.set", "accepted_legit.enc.unknown", "rejected.blk.append_forged",
            ]),
            "C04" => v.extend_from_slice(&["c04.decision.allowed", "c04.decision.nopolicy", "c04.decision.refused_allow", "c04.decision.refused_deny"]),
            _ => {}
        }
        v
    }
    fn level(&self) -> &'static str {
        match self.property.as_str() {
            "C01" | "C07" | "C08" | "C13" | "C15" => "fault_enumeration",
            _ => "exploration",
        }
    }
    fn rule(&self) -> String {
        "one run = one seeded scenario (issuers, third-party signers, verifiers, 3..14 events: mint / attenuate / third-party request-respond-attach with delivery faults / seal / holder crash+reload / verify) executed against the real library with the property's oracle clauses evaluated after every operation; a run is non-trivial when at least one oracle clause of the property was evaluated; distinct = distinct abstract traces (hash of the sequence of (operation, outcome class))".to_string()
    }
    fn assumptions(&self) -> Vec<String> {
        vec![
            "prost decoding, ed25519-dalek, p256/ecdsa are trusted".to_string(),
            "reference models R1 (chain), R2 (scoped Datalog), R3 (wire decoder), R4 (feature table) as validated against biscuit-auth/samples by `bsim validate-models`".to_string(),
            "seeded search: a clean batch is evidence, not proof".to_string(),
        ]
    }
}
