//! The only source of randomness of the simulator: xoshiro256** seeded through splitmix64.
//! Sub-streams are derived by hashing (seed, purpose, index) so that adding a draw for one
//! purpose never shifts another purpose's stream.

#[derive(Clone, Debug)]
pub struct Rng {
    s: [u64; 4],
}

fn splitmix(x: &mut u64) -> u64 {
    *x = x.wrapping_add(0x9e37_79b9_7f4a_7c15);
    let mut z = *x;
    z = (z ^ (z >> 30)).wrapping_mul(0xbf58_476d_1ce4_e5b9);
    z = (z ^ (z >> 27)).wrapping_mul(0x94d0_49bb_1331_11eb);
    z ^ (z >> 31)
}

/// FNV-1a over bytes, used for stable hashing of labels and traces (never std's RandomState)
pub fn fnv(bytes: &[u8]) -> u64 {
    let mut h: u64 = 0xcbf2_9ce4_8422_2325;
    for b in bytes {
        h ^= *b as u64;
        h = h.wrapping_mul(0x0000_0100_0000_01b3);
    }
    h
}

pub fn mix(a: u64, b: u64) -> u64 {
    let mut x = a ^ b.rotate_left(32) ^ 0x51_7c_c1_b7_27_22_0a_95;
    splitmix(&mut x)
}

impl Rng {
    pub fn new(seed: u64) -> Rng {
        let mut x = seed;
        let s = [
            splitmix(&mut x),
            splitmix(&mut x),
            splitmix(&mut x),
            splitmix(&mut x),
        ];
        Rng { s }
    }

    /// independent sub-stream
    pub fn derive(seed: u64, purpose: &str, index: u64) -> Rng {
        Rng::new(mix(mix(seed, fnv(purpose.as_bytes())), index))
    }

    pub fn next(&mut self) -> u64 {
        let result = self.s[1].wrapping_mul(5).rotate_left(7).wrapping_mul(9);
        let t = self.s[1] << 17;
        self.s[2] ^= self.s[0];
        self.s[3] ^= self.s[1];
        self.s[1] ^= self.s[2];
        self.s[0] ^= self.s[3];
        self.s[2] ^= t;
        self.s[3] = self.s[3].rotate_left(45);
        result
    }

    /// uniform in 0..n (n > 0)
    pub fn below(&mut self, n: usize) -> usize {
        if n <= 1 {
            return 0;
        }
        (self.next() % (n as u64)) as usize
    }

    /// uniform in lo..=hi
    pub fn range(&mut self, lo: usize, hi: usize) -> usize {
        lo + self.below(hi - lo + 1)
    }

    /// true with probability num/den
    pub fn chance(&mut self, num: u32, den: u32) -> bool {
        (self.next() % den as u64) < num as u64
    }

    pub fn pick<'a, T>(&mut self, items: &'a [T]) -> &'a T {
        &items[self.below(items.len())]
    }

    pub fn shuffle<T>(&mut self, items: &mut [T]) {
        for i in (1..items.len()).rev() {
            let j = self.below(i + 1);
            items.swap(i, j);
        }
    }

    /// index chosen with the given integer weights
    pub fn weighted(&mut self, weights: &[u32]) -> usize {
        let total: u64 = weights.iter().map(|w| *w as u64).sum();
        if total == 0 {
            return 0;
        }
        let mut x = self.next() % total;
        for (i, w) in weights.iter().enumerate() {
            if x < *w as u64 {
                return i;
            }
            x -= *w as u64;
        }
        weights.len() - 1
    }
}

impl rand_core::RngCore for Rng {
    fn next_u32(&mut self) -> u32 {
        (self.next() >> 32) as u32
    }
    fn next_u64(&mut self) -> u64 {
        self.next()
    }
    fn fill_bytes(&mut self, dest: &mut [u8]) {
        for chunk in dest.chunks_mut(8) {
            let v = self.next().to_le_bytes();
            chunk.copy_from_slice(&v[..chunk.len()]);
        }
    }
    fn try_fill_bytes(&mut self, dest: &mut [u8]) -> Result<(), rand_core::Error> {
        self.fill_bytes(dest);
        Ok(())
    }
}

// the simulator needs reproducible keys, not secure ones
impl rand_core::CryptoRng for Rng {}
