//! The simulated world: issuers, holders (token slots), third-party signers, verifiers and the
//! adversary that owns every byte string between two API calls. A `Scenario` is fully concrete
//! (no PRNG is consulted while executing it); `generate` makes one from a seed.
use crate::ast::{self, Alg, Block, Pred, PubKey, Rule, Scope, Term};
use crate::gen::{Gen, GenCfg, Pool};
use crate::keys::KeySpec;
use crate::libeval::{self, Limits, Outcome};
use crate::refchain::{self, Content};
use crate::refdl::{self, RBlock};
use crate::rng::Rng;
use crate::versions;
use crate::wire;
use biscuit_auth::format::schema;
use biscuit_auth::{
    Biscuit, BiscuitBuilder, ThirdPartyBlock, ThirdPartyRequest, UnverifiedBiscuit,
};
use prost::Message;
use serde::{Deserialize, Serialize};
use std::collections::{BTreeMap, BTreeSet};

#[derive(Clone, Copy, Debug, PartialEq, Eq, Serialize, Deserialize)]
pub enum Api {
    Verified,
    Unverified,
}

#[derive(Clone, Copy, Debug, PartialEq, Eq, Serialize, Deserialize)]
pub enum Enc {
    Raw,
    B64,
}

#[derive(Clone, Copy, Debug, PartialEq, Eq, Serialize, Deserialize)]
pub enum Via {
    Builder,
    Source,
}

#[derive(Clone, Debug, PartialEq, Eq, Serialize, Deserialize)]
pub struct IssuerSpec {
    pub key: KeySpec,
    pub root_key_id: Option<u32>,
}

#[derive(Clone, Debug, PartialEq, Eq, Serialize, Deserialize)]
pub struct VerifierSpec {
    /// index of the issuer whose root key this verifier trusts
    pub issuer: usize,
    pub authorizer: ast::Authorizer,
    pub queries: Vec<Rule>,
    pub limits: Limits,
}

#[derive(Clone, Debug, PartialEq, Eq, Serialize, Deserialize)]
pub enum ReqFault {
    /// the request's previous signature is replaced by the last signature of another token
    PrevFrom(usize),
    /// legacy fields are added
    Legacy,
}

#[derive(Clone, Debug, PartialEq, Eq, Serialize, Deserialize)]
pub enum RespFault {
    PayloadFlip(usize),
    /// external key replaced by another signer's key
    KeyOf(usize),
    /// signature taken from another response
    SigFrom(usize),
    /// payload taken from another response
    PayloadFrom(usize),
    SigFlip(usize),
}

#[derive(Clone, Debug, PartialEq, Eq, Serialize, Deserialize)]
pub enum Event {
    /// placeholder left by the minimiser so that event indices stay stable
    Nop,
    Mint {
        issuer: usize,
        block: Block,
        next: KeySpec,
        via: Via,
    },
    Attenuate {
        token: usize,
        block: Block,
        next: KeySpec,
        via: Via,
    },
    /// holder of `token` asks a third party; the request travels to `signer`
    TpRequest {
        token: usize,
        signer: usize,
        enc: Enc,
    },
    /// `signer` (the one who actually receives it) answers request `req`
    TpRespond {
        req: usize,
        signer: usize,
        block: Block,
        via: Via,
        fault: Option<ReqFault>,
    },
    /// response `resp` is attached to `token` (normally the token the request was made for)
    TpAttach {
        token: usize,
        resp: usize,
        next: KeySpec,
        enc: Enc,
        fault: Option<RespFault>,
    },
    Seal {
        token: usize,
    },
    /// holder crash: the object is dropped and reloaded from its serialized form
    Reload {
        token: usize,
        api: Api,
        enc: Enc,
    },
    /// an unverified token is verified in place (keeps the in-memory tables)
    VerifyInPlace {
        token: usize,
    },
    /// the token is sent to a verifier which decodes, authorizes and queries
    Verify {
        verifier: usize,
        token: usize,
        enc: Enc,
        via_unverified: bool,
    },
}

#[derive(Clone, Debug, PartialEq, Eq, Serialize, Deserialize)]
pub struct Scenario {
    pub hash_key: u64,
    pub issuers: Vec<IssuerSpec>,
    pub signers: Vec<KeySpec>,
    pub verifiers: Vec<VerifierSpec>,
    pub events: Vec<Event>,
    /// when set, the adversary applies exactly this fault instead of its whole table
    #[serde(default)]
    pub focus: Option<Focus>,
}

/// one fault of the adversary's table: operator, victim token and second token, both named by
/// the event that created them
#[derive(Clone, Debug, PartialEq, Eq, Serialize, Deserialize)]
pub struct Focus {
    pub victim: usize,
    pub aux: Option<usize>,
    pub op: crate::faults::FaultOp,
}

// ---------------------------------------------------------------------------------------------
// generation

#[derive(Clone, Debug)]
pub struct Profile {
    pub max_events: usize,
    /// weights: attenuate, tp exchange, seal, reload, verify-in-place, verify, mint
    pub weights: [u32; 7],
    pub p256: u32,
    pub tp_faults: bool,
    pub errors: bool,
    pub force_v33: Option<bool>,
    pub ops_after_seal: bool,
    /// some verifiers get a small fact budget (outcomes are then not comparable with R2, which
    /// has no budgets: only for checks that compare the library with itself)
    pub small_fact_limits: bool,
}

impl Profile {
    pub fn default_for(property: &str) -> Profile {
        let mut p = Profile {
            max_events: 12,
            weights: [30, 20, 6, 12, 6, 30, 6],
            p256: 25,
            tp_faults: false,
            errors: false,
            force_v33: None,
            ops_after_seal: false,
            small_fact_limits: false,
        };
        match property {
            "C07" => {
                p.weights = [20, 45, 4, 8, 4, 20, 6];
                p.tp_faults = true;
            }
            "C08" => {
                p.weights = [25, 20, 25, 10, 5, 20, 5];
                p.ops_after_seal = true;
            }
            "C12" => {
                p.weights = [35, 30, 5, 20, 10, 10, 5];
            }
            "C03" | "C04" | "C13" => {
                p.weights = [30, 20, 3, 5, 3, 45, 5];
            }
            "C11" => {
                p.weights = [30, 15, 3, 3, 3, 45, 5];
                p.errors = true;
                p.p256 = 5;
                p.small_fact_limits = true;
            }
            "C01" | "C15" => {
                p.weights = [30, 20, 10, 5, 5, 5, 10];
                p.max_events = 9;
                p.p256 = 40;
            }
            _ => {}
        }
        p
    }
}

fn key(rng: &mut Rng, p256: u32) -> KeySpec {
    KeySpec {
        alg: if rng.chance(p256, 100) {
            Alg::P256
        } else {
            Alg::Ed25519
        },
        seed: rng.next() >> 8,
    }
}

pub fn generate(seed: u64, profile: &Profile) -> Scenario {
    let mut rng = Rng::derive(seed, "world", 0);
    let mut krng = Rng::derive(seed, "keys", 0);
    let mut cfg = GenCfg::new(&mut Rng::derive(seed, "gencfg", 0));
    if let Some(v) = profile.force_v33 {
        cfg.v33 = v;
    }
    cfg.errors = profile.errors;
    let n_issuers = if rng.chance(1, 4) { 2 } else { 1 };
    let issuers: Vec<IssuerSpec> = (0..n_issuers)
        .map(|_| IssuerSpec {
            key: key(&mut krng, profile.p256),
            root_key_id: if rng.chance(1, 3) {
                Some(rng.below(3) as u32)
            } else {
                None
            },
        })
        .collect();
    let n_signers = rng.range(1, 3);
    let signers: Vec<KeySpec> = (0..n_signers).map(|_| key(&mut krng, profile.p256)).collect();
    cfg.keys = signers.iter().map(|s| s.public()).collect();
    // one key nobody signs with
    cfg.keys.push(key(&mut krng, 20).public());

    let mut pool = Pool::default();
    let mut grng = Rng::derive(seed, "datalog", 0);
    let mut events: Vec<Event> = Vec::new();
    // tokens, requests and responses are named by the index of the event that creates them;
    // these lists predict which events will create one (a wrong guess only makes a later
    // event a no-op)
    let mut slots: Vec<usize> = Vec::new();
    let mut resps: Vec<usize> = Vec::new();
    let mut sealed: BTreeSet<usize> = BTreeSet::new();

    // one run in eight is a long history
    let long = Rng::derive(seed, "swarm", 0).chance(1, 8);
    let n_events = rng.range(3, if long { profile.max_events * 2 } else { profile.max_events });
    let via = |rng: &mut Rng| if rng.chance(1, 3) { Via::Source } else { Via::Builder };
    for i in 0..n_events {
        let choice = if i == 0 || slots.is_empty() { 6 } else { rng.weighted(&profile.weights) };
        match choice {
            6 => {
                let block = Gen { rng: &mut grng, cfg: &cfg, pool: &mut pool }.block();
                slots.push(events.len());
                events.push(Event::Mint {
                    issuer: rng.below(issuers.len()),
                    block,
                    next: key(&mut krng, profile.p256),
                    via: via(&mut rng),
                });
            }
            0 => {
                let token = pick_token(&mut rng, &slots, &sealed, profile.ops_after_seal);
                let block = Gen { rng: &mut grng, cfg: &cfg, pool: &mut pool }.block();
                if !sealed.contains(&token) {
                    slots.push(events.len());
                }
                events.push(Event::Attenuate {
                    token,
                    block,
                    next: key(&mut krng, profile.p256),
                    via: via(&mut rng),
                });
            }
            1 => {
                // a third-party exchange: request, optional interleaved step, response, attach
                let token = pick_token(&mut rng, &slots, &sealed, profile.ops_after_seal);
                let signer = rng.below(signers.len());
                let req = events.len();
                events.push(Event::TpRequest {
                    token,
                    signer,
                    enc: if rng.chance(1, 3) { Enc::B64 } else { Enc::Raw },
                });
                if sealed.contains(&token) {
                    continue;
                }
                let mut attach_to = token;
                // interleaving fault: the holder moves on before the response arrives
                if profile.tp_faults && rng.chance(1, 4) {
                    let block = Gen { rng: &mut grng, cfg: &cfg, pool: &mut pool }.block();
                    attach_to = events.len();
                    slots.push(events.len());
                    events.push(Event::Attenuate {
                        token,
                        block,
                        next: key(&mut krng, profile.p256),
                        via: Via::Builder,
                    });
                } else if profile.tp_faults && rng.chance(1, 8) {
                    attach_to = events.len();
                    sealed.insert(events.len());
                    slots.push(events.len());
                    events.push(Event::Seal { token });
                }
                let answering = if profile.tp_faults && rng.chance(1, 6) {
                    rng.below(signers.len())
                } else {
                    signer
                };
                let block = Gen { rng: &mut grng, cfg: &cfg, pool: &mut pool }.block();
                let req_fault = if profile.tp_faults && rng.chance(1, 5) {
                    Some(if rng.chance(3, 4) {
                        ReqFault::PrevFrom(*rng.pick(&slots))
                    } else {
                        ReqFault::Legacy
                    })
                } else {
                    None
                };
                let resp = events.len();
                events.push(Event::TpRespond {
                    req,
                    signer: answering,
                    block,
                    via: via(&mut rng),
                    fault: req_fault.clone(),
                });
                if req_fault == Some(ReqFault::Legacy) {
                    continue;
                }
                resps.push(resp);
                let n_attach = if profile.tp_faults && rng.chance(1, 5) { 2 } else { 1 };
                for a in 0..n_attach {
                    let target = if profile.tp_faults && (a > 0 || rng.chance(1, 5)) {
                        // misdelivery / duplicate: some other token or position
                        *rng.pick(&slots)
                    } else {
                        attach_to
                    };
                    let fault = if profile.tp_faults && rng.chance(1, 4) {
                        Some(match rng.below(5) {
                            0 => RespFault::PayloadFlip(rng.below(64)),
                            1 => RespFault::KeyOf(rng.below(signers.len())),
                            2 => RespFault::SigFrom(*rng.pick(&resps)),
                            3 => RespFault::PayloadFrom(*rng.pick(&resps)),
                            _ => RespFault::SigFlip(rng.below(64)),
                        })
                    } else {
                        None
                    };
                    let legit = fault.is_none()
                        && target == token
                        && answering == signer
                        && req_fault.is_none()
                        && !sealed.contains(&target);
                    if legit {
                        slots.push(events.len());
                    }
                    events.push(Event::TpAttach {
                        token: target,
                        resp,
                        next: key(&mut krng, profile.p256),
                        enc: if rng.chance(1, 3) { Enc::B64 } else { Enc::Raw },
                        fault,
                    });
                }
            }
            2 => {
                let token = pick_token(&mut rng, &slots, &sealed, profile.ops_after_seal);
                if !sealed.contains(&token) {
                    sealed.insert(events.len());
                    slots.push(events.len());
                }
                events.push(Event::Seal { token });
            }
            3 => {
                let token = *rng.pick(&slots);
                if sealed.contains(&token) {
                    sealed.insert(events.len());
                }
                slots.push(events.len());
                events.push(Event::Reload {
                    token,
                    api: if rng.chance(1, 2) { Api::Unverified } else { Api::Verified },
                    enc: if rng.chance(1, 3) { Enc::B64 } else { Enc::Raw },
                });
            }
            4 => {
                let token = *rng.pick(&slots);
                if sealed.contains(&token) {
                    sealed.insert(events.len());
                }
                slots.push(events.len());
                events.push(Event::VerifyInPlace { token });
            }
            _ => {
                events.push(Event::Verify {
                    verifier: rng.below(3),
                    token: *rng.pick(&slots),
                    enc: if rng.chance(1, 3) { Enc::B64 } else { Enc::Raw },
                    via_unverified: rng.chance(1, 3),
                });
            }
        }
    }
    // every scenario ends with the last tokens being shown to a verifier
    for t in slots.iter().rev().take(2) {
        events.push(Event::Verify {
            verifier: rng.below(3),
            token: *t,
            enc: Enc::Raw,
            via_unverified: false,
        });
    }

    let n_verifiers = rng.range(1, 3);
    let verifiers = (0..n_verifiers)
        .map(|_| {
            let mut g = Gen { rng: &mut grng, cfg: &cfg, pool: &mut pool };
            let authorizer = g.authorizer();
            let queries = (0..2).map(|_| g.data_query()).collect();
            VerifierSpec {
                issuer: 0,
                authorizer,
                queries,
                limits: if profile.small_fact_limits && rng.chance(1, 3) {
                    Limits { max_facts: rng.range(3, 25) as u64, ..Limits::generous() }
                } else {
                    Limits::generous()
                },
            }
        })
        .collect();

    Scenario {
        hash_key: Rng::derive(seed, "hash", 0).next(),
        issuers,
        signers,
        verifiers,
        events,
        focus: None,
    }
}

fn pick_token(rng: &mut Rng, slots: &[usize], sealed: &BTreeSet<usize>, allow_sealed: bool) -> usize {
    // prefer recent tokens so that chains grow
    let n = slots.len();
    for _ in 0..4 {
        let t = if rng.chance(2, 3) { slots[n - 1 - rng.below(n.min(2))] } else { slots[rng.below(n)] };
        if allow_sealed || !sealed.contains(&t) {
            return t;
        }
    }
    slots[rng.below(n)]
}

// ---------------------------------------------------------------------------------------------
// execution state

pub enum Obj {
    V(Biscuit),
    U(UnverifiedBiscuit),
}

impl Obj {
    pub fn to_vec(&self) -> Result<Vec<u8>, String> {
        match self {
            Obj::V(b) => b.to_vec().map_err(|e| format!("{e:?}")),
            Obj::U(u) => u.to_vec().map_err(|e| format!("{e:?}")),
        }
    }
    pub fn api(&self) -> Api {
        match self {
            Obj::V(_) => Api::Verified,
            Obj::U(_) => Api::Unverified,
        }
    }
}

#[derive(Clone, Debug)]
pub struct GhostBlock {
    /// what the author wrote (after parsing when it went through source text)
    pub ast: Block,
    pub external: Option<PubKey>,
    pub ext_signer: Option<KeySpec>,
    pub next: KeySpec,
}

pub struct Slot {
    pub obj: Obj,
    pub bytes: Vec<u8>,
    pub issuer: usize,
    pub ghost: Vec<GhostBlock>,
    pub sealed: bool,
    pub parent: Option<usize>,
    /// parent + exactly one more block
    pub extends_parent: bool,
    pub created_at: usize,
}

pub struct ReqMsg {
    pub token: usize,
    pub addressed_to: usize,
    pub bytes: Vec<u8>,
}

pub struct RespMsg {
    pub req: usize,
    pub signer: usize,
    pub bytes: Vec<u8>,
    pub ast: Block,
}

#[derive(Clone, Debug, PartialEq, Eq, Serialize, Deserialize)]
pub struct Violation {
    pub property: String,
    pub class: String,
    pub event: Option<usize>,
    pub detail: String,
    /// for violations found by the adversary's sweep: the single fault that reproduces it
    #[serde(default)]
    pub focus: Option<Focus>,
}

#[derive(Clone, Debug, Default)]
pub struct Monitors {
    pub c01: bool,
    pub c02: bool,
    pub c03: bool,
    pub c04: bool,
    pub c07: bool,
    pub c08: bool,
    pub c11: bool,
    pub c12: bool,
    pub c13: bool,
    pub c15: bool,
    pub c16: bool,
    pub hash_keys: usize,
}

impl Monitors {
    pub fn for_property(p: &str) -> Monitors {
        let mut m = Monitors {
            hash_keys: 1,
            ..Default::default()
        };
        match p {
            "C01" => m.c01 = true,
            "C02" => m.c02 = true,
            "C03" => m.c03 = true,
            "C04" => {
                m.c04 = true;
                m.hash_keys = 3;
            }
            "C07" => m.c07 = true,
            "C08" => m.c08 = true,
            "C12" => m.c12 = true,
            "C15" => m.c15 = true,
            "C16" => m.c16 = true,
            "C11" => {
                m.c11 = true;
                m.hash_keys = 8;
            }
            "C13" => m.c13 = true,
            _ => {}
        }
        m
    }
}

#[derive(Clone, Debug, Default, Serialize, Deserialize)]
pub struct Stats {
    pub counters: BTreeMap<String, u64>,
    /// sequence of (operation, outcome class): its hash is the run's abstract trace
    pub trace: Vec<String>,
    /// number of oracle clauses evaluated for the monitored property
    pub oracle_evals: u64,
    /// digest of every library result and token byte string of the run (determinism proof)
    pub digest: u64,
}

impl Stats {
    pub fn bump(&mut self, k: &str) {
        *self.counters.entry(k.to_string()).or_insert(0) += 1;
    }
    pub fn add(&mut self, k: &str, n: u64) {
        let c = self.counters.entry(k.to_string()).or_insert(0);
        *c = c.saturating_add(n);
    }
}

pub struct Run<'a> {
    pub scn: &'a Scenario,
    pub mon: &'a Monitors,
    pub slots: Vec<Slot>,
    pub reqs: Vec<ReqMsg>,
    pub resps: Vec<RespMsg>,
    /// (external key, payload, previous signature) of every third-party signature produced
    pub tp_registry: BTreeSet<(PubKey, Vec<u8>, Vec<u8>)>,
    /// the same with the signature bytes
    pub tp_signatures: BTreeSet<(PubKey, Vec<u8>, Vec<u8>, Vec<u8>)>,
    /// signed content of every legitimately produced token, per issuer
    pub registry: BTreeSet<(usize, Content)>,
    pub seen_revocation_ids: BTreeSet<Vec<u8>>,
    pub stats: Stats,
    pub violations: Vec<Violation>,
    /// harness-level problems (never a property verdict)
    pub harness: Vec<String>,
    /// tokens, requests and responses are named by the event that created them
    pub slot_of_event: BTreeMap<usize, usize>,
    pub req_of_event: BTreeMap<usize, usize>,
    pub resp_of_event: BTreeMap<usize, usize>,
    cur: usize,
}

fn b64(v: &[u8]) -> String {
    base64::encode_config(v, base64::URL_SAFE)
}

impl<'a> Run<'a> {
    pub fn new(scn: &'a Scenario, mon: &'a Monitors) -> Run<'a> {
        Run {
            scn,
            mon,
            slots: vec![],
            reqs: vec![],
            resps: vec![],
            tp_registry: BTreeSet::new(),
            tp_signatures: BTreeSet::new(),
            registry: BTreeSet::new(),
            seen_revocation_ids: BTreeSet::new(),
            stats: Stats::default(),
            violations: vec![],
            harness: vec![],
            slot_of_event: BTreeMap::new(),
            req_of_event: BTreeMap::new(),
            resp_of_event: BTreeMap::new(),
            cur: 0,
        }
    }

    pub fn violate(&mut self, property: &str, class: &str, detail: String) {
        self.violations.push(Violation {
            property: property.to_string(),
            class: class.to_string(),
            event: Some(self.cur),
            detail,
            focus: None,
        });
    }

    fn root_pub(&self, issuer: usize) -> biscuit_auth::PublicKey {
        self.scn.issuers[issuer].key.keypair().public()
    }

    fn block_builder(&mut self, block: &Block, via: Via) -> Result<(biscuit_auth::builder::BlockBuilder, Block), String> {
        let use_source = via == Via::Source && block.source_expressible();
        let bb = if use_source {
            self.stats.bump("block.via_source");
            block.to_builder_via_source()
        } else {
            self.stats.bump("block.via_builder");
            block.to_builder()
        }
        .map_err(|e| {
            if std::env::var("BSIM_DEBUG").is_ok() {
                eprintln!("block refused ({e:?}):\n{}", block.source());
            }
            format!("{e:?}")
        })?;
        let written = wire::normalise_block(Block::from_builder(&bb)?);
        Ok((bb, written))
    }

    pub fn execute(&mut self) {
        libeval::install(self.scn.hash_key);
        for (i, ev) in self.scn.events.iter().enumerate() {
            self.cur = i;
            self.step(ev);
        }
        self.cur = self.scn.events.len();
        if self.mon.c01 || self.mon.c15 || self.mon.c08 || self.mon.c07 {
            self.fault_sweep();
        }
    }

    fn step(&mut self, ev: &Event) {
        // operands name creating events; an operand that names nothing makes the event a no-op
        macro_rules! slot {
            ($e:expr) => {
                match self.slot_of_event.get($e) {
                    Some(s) => *s,
                    None => return,
                }
            };
        }
        match ev {
            Event::Nop => {}
            Event::Mint { issuer, block, next, via } => self.mint(*issuer, block, *next, *via),
            Event::Attenuate { token, block, next, via } => {
                let t = slot!(token);
                self.attenuate(t, block, *next, *via)
            }
            Event::TpRequest { token, signer, enc } => {
                let t = slot!(token);
                self.tp_request(t, *signer, *enc)
            }
            Event::TpRespond { req, signer, block, via, fault } => {
                let r = match self.req_of_event.get(req) {
                    Some(r) => *r,
                    None => return,
                };
                let fault = match fault {
                    Some(ReqFault::PrevFrom(e)) => match self.slot_of_event.get(e) {
                        Some(s) => Some(ReqFault::PrevFrom(*s)),
                        None => None,
                    },
                    other => other.clone(),
                };
                self.tp_respond(r, *signer, block, *via, fault.as_ref())
            }
            Event::TpAttach { token, resp, next, enc, fault } => {
                let t = slot!(token);
                let r = match self.resp_of_event.get(resp) {
                    Some(r) => *r,
                    None => return,
                };
                let fault = match fault {
                    Some(RespFault::SigFrom(e)) => self.resp_of_event.get(e).map(|x| RespFault::SigFrom(*x)),
                    Some(RespFault::PayloadFrom(e)) => {
                        self.resp_of_event.get(e).map(|x| RespFault::PayloadFrom(*x))
                    }
                    other => other.clone(),
                };
                self.tp_attach(t, r, *next, *enc, fault.as_ref())
            }
            Event::Seal { token } => {
                let t = slot!(token);
                self.seal(t)
            }
            Event::Reload { token, api, enc } => {
                let t = slot!(token);
                self.reload(t, *api, *enc)
            }
            Event::VerifyInPlace { token } => {
                let t = slot!(token);
                self.verify_in_place(t)
            }
            Event::Verify { verifier, token, enc, via_unverified } => {
                let t = slot!(token);
                self.verify(*verifier, t, *enc, *via_unverified)
            }
        }
    }

    fn push_slot(&mut self, slot: Slot, op: &str) {
        let idx = self.slots.len();
        libeval::digest_mix(&slot.bytes);
        self.slots.push(slot);
        self.slot_of_event.insert(self.cur, idx);
        self.stats.trace.push(format!("{op}:ok"));
        self.stats.bump(&format!("op.{op}.ok"));
        self.after_legit_op(idx, op);
    }

    fn refused(&mut self, op: &str, err: &str) {
        let class = err.split(|c: char| !c.is_alphanumeric()).next().unwrap_or("");
        self.stats.trace.push(format!("{op}:refused:{class}"));
        self.stats.bump(&format!("op.{op}.refused"));
    }

    fn mint(&mut self, issuer: usize, block: &Block, next: KeySpec, via: Via) {
        if issuer >= self.scn.issuers.len() {
            return;
        }
        let (bb, written) = match self.block_builder(block, via) {
            Ok(x) => x,
            Err(e) => {
                self.stats.bump("skip.block_builder");
                self.harness.push(format!("mint: generated block refused by builder: {e}"));
                return;
            }
        };
        let spec = &self.scn.issuers[issuer];
        let mut builder = BiscuitBuilder::new().merge(bb.clone());
        for s in &bb.scopes {
            builder = builder.scope(s.clone());
        }
        if let Some(id) = spec.root_key_id {
            builder = builder.root_key_id(id);
        }
        let root = spec.key.keypair();
        if self.mon.c15 {
            // two tokens minted independently from identical contents (next key from the OS)
            if let (Ok(x), Ok(y)) = (builder.clone().build(&root), builder.clone().build(&root)) {
                self.stats.bump("c15.os_rng_probe_mint");
                self.stats.oracle_evals += 1;
                if x.revocation_identifiers() == y.revocation_identifiers() {
                    self.violations.push(Violation {
                        property: "C15".to_string(),
                        class: "revocation-id-collision".to_string(),
                        event: Some(self.cur),
                        detail: "two tokens minted with build() from identical contents share their identifier".to_string(),
                        focus: None,
                    });
                }
            }
        }
        let res = builder.build_with_key_pair(
            &root,
            biscuit_auth::datalog::SymbolTable::new(),
            &next.keypair(),
        );
        match res {
            Ok(b) => {
                let bytes = b.to_vec().unwrap_or_default();
                let slot = Slot {
                    obj: Obj::V(b),
                    bytes,
                    issuer,
                    ghost: vec![GhostBlock {
                        ast: written,
                        external: None,
                        ext_signer: None,
                        next,
                    }],
                    sealed: false,
                    parent: None,
                    extends_parent: false,
                    created_at: self.cur,
                };
                self.push_slot(slot, "mint");
            }
            Err(e) => {
                self.stats.bump("skip.mint_failed");
                self.harness.push(format!("mint failed: {e:?}"));
            }
        }
    }

    fn attenuate(&mut self, token: usize, block: &Block, next: KeySpec, via: Via) {
        if token >= self.slots.len() {
            return;
        }
        let (bb, written) = match self.block_builder(block, via) {
            Ok(x) => x,
            Err(e) => {
                self.stats.bump("skip.block_builder");
                self.harness.push(format!("attenuate: generated block refused by builder: {e}"));
                return;
            }
        };
        let kp = next.keypair();
        let res: Result<Obj, String> = match &self.slots[token].obj {
            Obj::V(b) => b
                .append_with_keypair(&kp, bb)
                .map(Obj::V)
                .map_err(|e| format!("{e:?}")),
            Obj::U(u) => u
                .append_with_keypair(&kp, bb)
                .map(Obj::U)
                .map_err(|e| format!("{e:?}")),
        };
        let parent_sealed = self.slots[token].sealed;
        match res {
            Ok(obj) => {
                if parent_sealed {
                    self.stats.oracle_evals += 1;
                    if self.mon.c08 {
                        self.violate(
                            "C08",
                            "sealed-token-extended",
                            format!("append succeeded on sealed token slot {token}"),
                        );
                    }
                }
                let bytes = obj.to_vec().unwrap_or_default();
                let mut ghost = self.slots[token].ghost.clone();
                ghost.push(GhostBlock {
                    ast: written,
                    external: None,
                    ext_signer: None,
                    next,
                });
                let slot = Slot {
                    obj,
                    bytes,
                    issuer: self.slots[token].issuer,
                    ghost,
                    sealed: false,
                    parent: Some(token),
                    extends_parent: true,
                    created_at: self.cur,
                };
                if parent_sealed {
                    // do not let an impossible token into the legitimate registry
                    return;
                }
                self.push_slot(slot, "attenuate");
            }
            Err(e) => {
                if parent_sealed {
                    self.stats.bump("sealed.append_refused");
                    if self.mon.c08 {
                        self.stats.oracle_evals += 1;
                        if !(e.contains("Sealed")) {
                            self.violate(
                                "C08",
                                "sealed-refusal-wrong-error",
                                format!("append on sealed token refused with {e}"),
                            );
                        }
                    }
                    self.refused("attenuate", &e);
                } else if e.contains("SymbolTableOverlap") {
                    // cannot happen through the builders; if it does the generator is at fault
                    self.harness.push(format!("attenuate: {e}"));
                    self.refused("attenuate", &e);
                } else {
                    self.stats.bump("skip.attenuate_failed");
                    self.harness.push(format!("attenuate failed on unsealed token: {e}"));
                }
            }
        }
    }

    fn tp_request(&mut self, token: usize, signer: usize, enc: Enc) {
        if token >= self.slots.len() || signer >= self.scn.signers.len() {
            return;
        }
        let res = match &self.slots[token].obj {
            Obj::V(b) => b.third_party_request(),
            Obj::U(u) => u.third_party_request(),
        };
        let sealed = self.slots[token].sealed;
        match res {
            Ok(req) => {
                if sealed {
                    self.stats.oracle_evals += 1;
                    if self.mon.c08 {
                        self.violate(
                            "C08",
                            "sealed-token-extended",
                            format!("third_party_request succeeded on sealed token slot {token}"),
                        );
                    }
                    return;
                }
                let bytes = match enc {
                    Enc::Raw => req.serialize().map_err(|e| format!("{e:?}")),
                    Enc::B64 => req
                        .serialize_base64()
                        .map_err(|e| format!("{e:?}"))
                        .and_then(|s| {
                            base64::decode_config(s, base64::URL_SAFE).map_err(|e| e.to_string())
                        }),
                };
                match bytes {
                    Ok(bytes) => {
                        self.req_of_event.insert(self.cur, self.reqs.len());
                        self.reqs.push(ReqMsg {
                            token,
                            addressed_to: signer,
                            bytes,
                        });
                        self.stats.trace.push("tp_request:ok".to_string());
                        self.stats.bump("op.tp_request.ok");
                    }
                    Err(e) => self.harness.push(format!("request serialization failed: {e}")),
                }
            }
            Err(e) => {
                let e = format!("{e:?}");
                if sealed {
                    self.stats.bump("sealed.request_refused");
                    if self.mon.c08 {
                        self.stats.oracle_evals += 1;
                    }
                    self.refused("tp_request", &e);
                } else {
                    self.harness.push(format!("third_party_request failed on unsealed token: {e}"));
                }
            }
        }
    }

    fn tp_respond(&mut self, req: usize, signer: usize, block: &Block, via: Via, fault: Option<&ReqFault>) {
        if req >= self.reqs.len() || signer >= self.scn.signers.len() {
            return;
        }
        let mut bytes = self.reqs[req].bytes.clone();
        if let Some(f) = fault {
            self.stats.bump("fault.request");
            match schema::ThirdPartyBlockRequest::decode(&bytes[..]) {
                Ok(mut r) => {
                    match f {
                        ReqFault::PrevFrom(slot) => {
                            if let Some(s) = self.slots.get(*slot) {
                                if let Ok((_, c)) = refchain::content_of(&s.bytes) {
                                    r.previous_signature = c.blocks.last().unwrap().signature.clone();
                                }
                            }
                        }
                        ReqFault::Legacy => {
                            r.legacy_public_keys.push(self.scn.signers[signer].keypair().public().to_proto());
                        }
                    }
                    bytes.clear();
                    let _ = r.encode(&mut bytes);
                }
                Err(e) => self.harness.push(format!("request does not decode: {e}")),
            }
        }
        let (bb, written) = match self.block_builder(block, via) {
            Ok(x) => x,
            Err(e) => {
                self.stats.bump("skip.block_builder");
                self.harness.push(format!("tp block refused by builder: {e}"));
                return;
            }
        };
        let request = match ThirdPartyRequest::deserialize(&bytes) {
            Ok(r) => r,
            Err(e) => {
                self.refused("tp_respond", &format!("{e:?}"));
                if fault.is_none() {
                    self.harness.push(format!("pristine request refused: {e:?}"));
                }
                return;
            }
        };
        if matches!(fault, Some(ReqFault::Legacy)) {
            self.harness.push("request with legacy fields was accepted".to_string());
        }
        let kp = self.scn.signers[signer].keypair();
        match request.create_block(&kp.private(), bb) {
            Ok(tpb) => match tpb.serialize() {
                Ok(out) => {
                    // ghost registry: what this signer really signed, decoded from its own output
                    if let Ok(c) = schema::ThirdPartyBlockContents::decode(&out[..]) {
                        if let (Ok(k), Ok(r)) = (
                            wire::key_of(&c.external_signature.public_key),
                            schema::ThirdPartyBlockRequest::decode(&bytes[..]),
                        ) {
                            self.tp_registry
                                .insert((k.clone(), c.payload.clone(), r.previous_signature.clone()));
                            self.tp_signatures.insert((
                                k,
                                c.payload.clone(),
                                r.previous_signature.clone(),
                                c.external_signature.signature.clone(),
                            ));
                        }
                    }
                    self.resp_of_event.insert(self.cur, self.resps.len());
                    self.resps.push(RespMsg {
                        req,
                        signer,
                        bytes: out,
                        ast: written,
                    });
                    self.stats.trace.push("tp_respond:ok".to_string());
                    self.stats.bump("op.tp_respond.ok");
                }
                Err(e) => self.harness.push(format!("tp block serialization failed: {e:?}")),
            },
            Err(e) => self.harness.push(format!("create_block failed: {e:?}")),
        }
    }

    fn faulted_response(&mut self, resp: usize, fault: &RespFault) -> Vec<u8> {
        let bytes = self.resps[resp].bytes.clone();
        let mut c = match schema::ThirdPartyBlockContents::decode(&bytes[..]) {
            Ok(c) => c,
            Err(_) => return bytes,
        };
        self.stats.bump("fault.response");
        match fault {
            RespFault::PayloadFlip(bit) => {
                if !c.payload.is_empty() {
                    let i = (bit / 8) % c.payload.len();
                    c.payload[i] ^= 1 << (bit % 8);
                }
            }
            RespFault::SigFlip(bit) => {
                if !c.external_signature.signature.is_empty() {
                    let i = (bit / 8) % c.external_signature.signature.len();
                    c.external_signature.signature[i] ^= 1 << (bit % 8);
                }
            }
            RespFault::KeyOf(s) => {
                if let Some(k) = self.scn.signers.get(*s) {
                    c.external_signature.public_key = k.keypair().public().to_proto();
                }
            }
            RespFault::SigFrom(r) => {
                if let Some(other) = self.resps.get(*r) {
                    if let Ok(o) = schema::ThirdPartyBlockContents::decode(&other.bytes[..]) {
                        c.external_signature.signature = o.external_signature.signature;
                    }
                }
            }
            RespFault::PayloadFrom(r) => {
                if let Some(other) = self.resps.get(*r) {
                    if let Ok(o) = schema::ThirdPartyBlockContents::decode(&other.bytes[..]) {
                        c.payload = o.payload;
                    }
                }
            }
        }
        let mut out = Vec::new();
        let _ = c.encode(&mut out);
        out
    }

    fn tp_attach(&mut self, token: usize, resp: usize, next: KeySpec, enc: Enc, fault: Option<&RespFault>) {
        if token >= self.slots.len() || resp >= self.resps.len() {
            return;
        }
        let bytes = match fault {
            Some(f) => self.faulted_response(resp, f),
            None => self.resps[resp].bytes.clone(),
        };
        let req = self.resps[resp].req;
        let expected_signer = self.reqs[req].addressed_to;
        let expected_key = self.scn.signers[expected_signer].keypair().public();
        if self.reqs[req].token != token {
            self.stats.bump("fault.misdelivered_response");
        }
        let sealed = self.slots[token].sealed;
        // what the adversary-visible facts say about this attachment
        let decoded = schema::ThirdPartyBlockContents::decode(&bytes[..]).ok();
        let prev_sig = refchain::content_of(&self.slots[token].bytes)
            .ok()
            .map(|(_, c)| c.blocks.last().unwrap().signature.clone());
        let in_registry = match (&decoded, &prev_sig) {
            (Some(c), Some(p)) => match wire::key_of(&c.external_signature.public_key) {
                Ok(k) => self.tp_registry.contains(&(k, c.payload.clone(), p.clone())),
                Err(_) => false,
            },
            _ => false,
        };
        // the very signature the signer produced for this position (not merely the same content)
        let genuine_signature = match (&decoded, &prev_sig) {
            (Some(c), Some(p)) => match wire::key_of(&c.external_signature.public_key) {
                Ok(k) => self.tp_signatures.contains(&(
                    k,
                    c.payload.clone(),
                    p.clone(),
                    c.external_signature.signature.clone(),
                )),
                Err(_) => false,
            },
            _ => false,
        };
        let res: Result<Obj, String> = match &self.slots[token].obj {
            Obj::V(b) => match ThirdPartyBlock::verif_from_bytes(&bytes) {
                Ok(tpb) => b
                    .append_third_party_with_keypair(expected_key, tpb, next.keypair())
                    .map(Obj::V)
                    .map_err(|e| format!("{e:?}")),
                Err(e) => Err(format!("{e:?}")),
            },
            Obj::U(u) => match enc {
                Enc::Raw => u
                    .append_third_party_with_keypair(&bytes, next.keypair())
                    .map(Obj::U)
                    .map_err(|e| format!("{e:?}")),
                Enc::B64 => {
                    // the base64 entry point draws its next key from the OS: exercise its
                    // decoding, then use the seeded entry point for the object that continues
                    let r = u.append_third_party_base64(b64(&bytes));
                    let r2 = u
                        .append_third_party_with_keypair(&bytes, next.keypair())
                        .map(Obj::U)
                        .map_err(|e| format!("{e:?}"));
                    if r.is_ok() != r2.is_ok() {
                        self.harness.push("append_third_party_base64 and raw disagree".to_string());
                    }
                    r2
                }
            },
        };
        let verified_api = matches!(self.slots[token].obj, Obj::V(_));
        // C15 uniqueness through the entry points that draw the next key from the OS: two
        // holders attaching the same response to the same token get different identifiers
        // (only the boolean enters the run's record, never the drawn values)
        if self.mon.c15 && res.is_ok() && !sealed {
            let twice: Option<(Vec<u8>, Vec<u8>)> = match &self.slots[token].obj {
                Obj::V(b) => match (ThirdPartyBlock::verif_from_bytes(&bytes), ThirdPartyBlock::verif_from_bytes(&bytes)) {
                    (Ok(t1), Ok(t2)) => match (b.append_third_party(expected_key, t1), b.append_third_party(expected_key, t2)) {
                        (Ok(x), Ok(y)) => Some((x.revocation_identifiers().pop().unwrap_or_default(), y.revocation_identifiers().pop().unwrap_or_default())),
                        _ => None,
                    },
                    _ => None,
                },
                Obj::U(u) => match (u.append_third_party(&bytes), u.append_third_party(&bytes)) {
                    (Ok(x), Ok(y)) => Some((x.revocation_identifiers().pop().unwrap_or_default(), y.revocation_identifiers().pop().unwrap_or_default())),
                    _ => None,
                },
            };
            if let Some((x, y)) = twice {
                self.stats.bump("c15.os_rng_probe_third_party");
                self.stats.oracle_evals += 1;
                if x == y {
                    self.violate(
                        "C15",
                        "revocation-id-collision",
                        format!("slot {token}: attaching the same third-party block twice through append_third_party() gives the same identifier"),
                    );
                }
            }
        }
        match res {
            Ok(obj) => {
                self.stats.bump("tp.attach_ok");
                if sealed {
                    self.stats.oracle_evals += 1;
                    if self.mon.c08 {
                        self.violate(
                            "C08",
                            "sealed-token-extended",
                            format!("third-party block attached to sealed token slot {token}"),
                        );
                    }
                    return;
                }
                let obj_bytes = obj.to_vec().unwrap_or_default();
                if self.mon.c07 {
                    self.stats.oracle_evals += 1;
                    if verified_api && !in_registry {
                        self.violate(
                            "C07",
                            "tp-block-not-in-registry",
                            format!(
                                "Biscuit::append_third_party accepted a response (fault {:?}, made for request of slot {}) onto slot {} although its signer never signed that payload for that position",
                                fault, self.reqs[req].token, token
                            ),
                        );
                    }
                    if !verified_api && !in_registry {
                        // the unverified API does not check; the result must not verify
                        let root = self.root_pub(self.slots[token].issuer);
                        if Biscuit::from(&obj_bytes, root).is_ok() {
                            self.violate(
                                "C07",
                                "tp-block-not-in-registry",
                                format!(
                                    "token built by UnverifiedBiscuit::append_third_party from an unregistered response (fault {:?}) verifies",
                                    fault
                                ),
                            );
                        }
                    }
                }
                // the unverified API checks nothing: a registered payload with a damaged
                // signature is attached too. Whether the result is a legitimate token is decided
                // by R1, not by the library.
                let r1_valid = verified_api || genuine_signature || {
                    let rroot = self.scn.issuers[self.slots[token].issuer].key.rkey();
                    refchain::verify(&obj_bytes, &rroot).is_ok()
                };
                if in_registry && !r1_valid {
                    self.stats.bump("tp.damaged_signature_attached_unverified");
                    let root = self.root_pub(self.slots[token].issuer);
                    if self.mon.c07 && Biscuit::from(&obj_bytes, root).is_ok() {
                        self.violate(
                            "C07",
                            "tp-block-not-in-registry",
                            format!("token built by UnverifiedBiscuit::append_third_party from a response with a damaged signature (fault {:?}) verifies", fault),
                        );
                    }
                    self.stats.trace.push("tp_attach:damaged".to_string());
                    return;
                }
                if !in_registry {
                    self.stats.bump("tp.unregistered_attached_unverified");
                    // not a legitimate token: it does not continue
                    self.stats.trace.push("tp_attach:unregistered".to_string());
                    return;
                }
                if fault.is_some() || self.reqs[req].token != token {
                    self.stats.bump("tp.faulted_but_legitimate");
                }
                let c = decoded.unwrap();
                let ext = wire::key_of(&c.external_signature.public_key).ok();
                let signer_spec = self
                    .scn
                    .signers
                    .iter()
                    .find(|s| Some(s.public()) == ext)
                    .cloned();
                // the block content is what the payload's author wrote
                let ast = self
                    .resps
                    .iter()
                    .find(|r| {
                        schema::ThirdPartyBlockContents::decode(&r.bytes[..])
                            .map(|o| o.payload == c.payload)
                            .unwrap_or(false)
                    })
                    .map(|r| r.ast.clone())
                    .unwrap_or_default();
                let mut ghost = self.slots[token].ghost.clone();
                ghost.push(GhostBlock {
                    ast,
                    external: ext,
                    ext_signer: signer_spec,
                    next,
                });
                let slot = Slot {
                    obj,
                    bytes: obj_bytes,
                    issuer: self.slots[token].issuer,
                    ghost,
                    sealed: false,
                    parent: Some(token),
                    extends_parent: true,
                    created_at: self.cur,
                };
                self.push_slot(slot, "tp_attach");
            }
            Err(e) => {
                self.stats.bump("tp.attach_refused");
                if sealed && self.mon.c08 {
                    self.stats.oracle_evals += 1;
                }
                if self.mon.c07 {
                    self.stats.oracle_evals += 1;
                }
                let legit = in_registry
                    && genuine_signature
                    && !sealed
                    && decoded
                        .as_ref()
                        .and_then(|c| wire::key_of(&c.external_signature.public_key).ok())
                        == Some(PubKey::from_lib(&expected_key));
                if legit {
                    self.stats.bump("tp.legit_refused");
                    let api = if verified_api { "Biscuit" } else { "UnverifiedBiscuit" };
                    let d = format!(
                        "{api}::append_third_party refused a response its signer produced for exactly this token and position: {e}"
                    );
                    if self.mon.c07 {
                        self.violate("C07", "legit-tp-refused", d.clone());
                    }
                    if self.mon.c12 {
                        self.violate("C12", "legit-tp-refused", d);
                    }
                }
                self.refused("tp_attach", &e);
            }
        }
    }

    fn seal(&mut self, token: usize) {
        if token >= self.slots.len() {
            return;
        }
        let res: Result<Obj, String> = match &self.slots[token].obj {
            Obj::V(b) => b.seal().map(Obj::V).map_err(|e| format!("{e:?}")),
            Obj::U(u) => u.seal().map(Obj::U).map_err(|e| format!("{e:?}")),
        };
        let sealed = self.slots[token].sealed;
        match res {
            Ok(obj) => {
                if sealed {
                    self.stats.oracle_evals += 1;
                    if self.mon.c08 {
                        self.violate(
                            "C08",
                            "sealed-token-extended",
                            format!("seal succeeded on already sealed token slot {token}"),
                        );
                    }
                    return;
                }
                let bytes = obj.to_vec().unwrap_or_default();
                let slot = Slot {
                    obj,
                    bytes,
                    issuer: self.slots[token].issuer,
                    ghost: self.slots[token].ghost.clone(),
                    sealed: true,
                    parent: Some(token),
                    extends_parent: false,
                    created_at: self.cur,
                };
                self.push_slot(slot, "seal");
            }
            Err(e) => {
                if sealed {
                    self.stats.bump("sealed.reseal_refused");
                    if self.mon.c08 {
                        self.stats.oracle_evals += 1;
                    }
                    self.refused("seal", &e);
                } else {
                    self.harness.push(format!("seal failed on unsealed token: {e}"));
                }
            }
        }
    }

    fn reload(&mut self, token: usize, api: Api, enc: Enc) {
        if token >= self.slots.len() {
            return;
        }
        let bytes = self.slots[token].bytes.clone();
        let root = self.root_pub(self.slots[token].issuer);
        let res: Result<Obj, String> = match (api, enc) {
            (Api::Verified, Enc::Raw) => Biscuit::from(&bytes, root).map(Obj::V).map_err(|e| format!("{e:?}")),
            (Api::Verified, Enc::B64) => Biscuit::from_base64(b64(&bytes), root)
                .map(Obj::V)
                .map_err(|e| format!("{e:?}")),
            (Api::Unverified, Enc::Raw) => UnverifiedBiscuit::from(&bytes).map(Obj::U).map_err(|e| format!("{e:?}")),
            (Api::Unverified, Enc::B64) => UnverifiedBiscuit::from_base64(b64(&bytes))
                .map(Obj::U)
                .map_err(|e| format!("{e:?}")),
        };
        match res {
            Ok(obj) => {
                let slot = Slot {
                    obj,
                    bytes,
                    issuer: self.slots[token].issuer,
                    ghost: self.slots[token].ghost.clone(),
                    sealed: self.slots[token].sealed,
                    parent: Some(token),
                    extends_parent: false,
                    created_at: self.cur,
                };
                self.stats.bump("fault.holder_reload");
                self.push_slot(slot, "reload");
            }
            Err(e) => {
                self.stats.oracle_evals += 1;
                if self.mon.c02 || self.mon.c12 {
                    let p = if self.mon.c02 { "C02" } else { "C12" };
                    self.violate(
                        p,
                        "legit-token-rejected",
                        format!("reload of legitimately built token slot {token} failed: {e}"),
                    );
                }
                self.refused("reload", &e);
            }
        }
    }

    fn verify_in_place(&mut self, token: usize) {
        if token >= self.slots.len() {
            return;
        }
        let root = self.root_pub(self.slots[token].issuer);
        let u = match &self.slots[token].obj {
            Obj::U(u) => u.clone(),
            Obj::V(_) => return,
        };
        match u.verify(root) {
            Ok(b) => {
                let slot = Slot {
                    obj: Obj::V(b),
                    bytes: self.slots[token].bytes.clone(),
                    issuer: self.slots[token].issuer,
                    ghost: self.slots[token].ghost.clone(),
                    sealed: self.slots[token].sealed,
                    parent: Some(token),
                    extends_parent: false,
                    created_at: self.cur,
                };
                self.push_slot(slot, "verify_in_place");
            }
            Err(e) => {
                self.stats.oracle_evals += 1;
                if self.mon.c02 || self.mon.c12 {
                    let p = if self.mon.c02 { "C02" } else { "C12" };
                    self.violate(
                        p,
                        "legit-token-rejected",
                        format!("verify() of legitimately built unverified token slot {token} failed: {e:?}"),
                    );
                }
            }
        }
    }

    pub fn rblocks(&self, slot: usize) -> Vec<RBlock> {
        self.slots[slot]
            .ghost
            .iter()
            .map(|g| RBlock {
                block: g.ast.clone(),
                external: g.external.clone(),
            })
            .collect()
    }

    // -----------------------------------------------------------------------------------------
    // invariants after every legitimate operation

    fn after_legit_op(&mut self, idx: usize, op: &str) {
        let issuer = self.slots[idx].issuer;
        let bytes = self.slots[idx].bytes.clone();
        match refchain::content_of(&bytes) {
            Ok((_, c)) => {
                self.registry.insert((issuer, c));
            }
            Err(e) => self.harness.push(format!("legit token does not decode with prost: {e}")),
        }
        if self.mon.c02 {
            self.check_c02(idx);
        }
        if self.mon.c16 {
            self.check_c16(idx);
            // the re-declaration sweep costs ten verifications: every other eligible token
            if matches!(op, "mint" | "attenuate") && idx % 2 == 0 {
                self.check_c16_byzantine(idx);
            }
            if matches!(op, "mint" | "attenuate") && idx % 2 == 1 {
                self.check_c16_snapshot(idx);
            }
        }
        if self.mon.c15 {
            self.check_c15(idx, op);
        }
        if self.mon.c12 {
            self.check_c12(idx);
            if idx % 3 == 0 {
                self.check_c12_byzantine(idx);
            }
        }
        // C07's isolation clause: a third-party block neither sees nor extends the token's
        // tables. Observable as: tokens that contain one still mean the same in memory and
        // after a round trip, and every reference resolves to what its author wrote.
        if self.mon.c07 && self.slots[idx].ghost.iter().any(|g| g.external.is_some()) {
            let before = self.violations.len();
            self.check_c12(idx);
            for v in self.violations[before..].iter_mut() {
                v.property = "C07".to_string();
                v.class = format!("tp-tables-{}", v.class);
            }
        }
        if self.mon.c08 && self.slots[idx].sealed && op == "seal" {
            self.check_c08_seal(idx);
        }
        // C12 over an application base symbol table: the sealed value in memory and the sealed
        // bytes read back (from_with_symbols) mean what the token meant before
        if self.mon.c12 && self.slots[idx].sealed && op == "seal" {
            let before = self.violations.len();
            self.check_c08_seal_over_base(idx);
            for v in self.violations[before..].iter_mut() {
                v.property = "C12".to_string();
                v.class = format!("twin-differs-over-base-table-{}", v.class);
            }
        }
        // always track revocation ids (cheap), used by C15
        if let Ok((_, c)) = refchain::content_of(&bytes) {
            for b in &c.blocks {
                self.seen_revocation_ids.insert(b.signature.clone());
            }
        }
    }

    fn describe(b: &Biscuit) -> Vec<String> {
        let mut v = vec![
            format!("count={}", b.block_count()),
            format!("ctx={:?}", b.context()),
            format!("ext={:?}", b.external_public_keys().iter().map(|k| k.map(|k| k.to_bytes_hex())).collect::<Vec<_>>()),
            format!("kid={:?}", b.root_key_id()),
        ];
        for i in 0..b.block_count() {
            v.push(format!("src{i}={:?}", b.print_block_source(i)));
            v.push(format!("ver{i}={:?}", b.block_version(i)));
        }
        v
    }

    fn check_c02(&mut self, idx: usize) {
        let issuer = self.slots[idx].issuer;
        let root = self.root_pub(issuer);
        let bytes = self.slots[idx].bytes.clone();
        self.stats.oracle_evals += 1;
        let a = Biscuit::from(&bytes, root);
        let b = Biscuit::from_base64(b64(&bytes), root);
        let c = UnverifiedBiscuit::from(&bytes).map_err(|e| format!("{e:?}")).and_then(|u| {
            u.verify(root).map_err(|e| format!("{e:?}"))
        });
        let (a, b, c) = match (a, b, c) {
            (Ok(a), Ok(b), Ok(c)) => (a, b, c),
            (a, b, c) => {
                self.violate(
                    "C02",
                    "legit-token-rejected",
                    format!(
                        "token of slot {idx} rejected: from={:?} from_base64={:?} unverified+verify={:?}",
                        a.err(),
                        b.err(),
                        c.err()
                    ),
                );
                return;
            }
        };
        let da = Self::describe(&a);
        let mem = match &self.slots[idx].obj {
            Obj::V(m) => Some(Self::describe(m)),
            Obj::U(_) => None,
        };
        if da != Self::describe(&b) || da != Self::describe(&c) || mem.map(|m| m != da).unwrap_or(false) {
            self.violate(
                "C02",
                "roundtrip-view-differs",
                format!("decode paths expose different tokens for slot {idx}"),
            );
        }
        // a token the API built exposes blocks that can be read (two decode paths that both fail
        // to read a block agree with each other)
        for i in 0..a.block_count() {
            let (src, ver) = (a.print_block_source(i), a.block_version(i));
            if src.is_err() || ver.is_err() {
                self.violate(
                    "C02",
                    "roundtrip-view-differs",
                    format!("slot {idx}: block {i} of a token the API built cannot be read back: source {:?}, version {:?}", src.err(), ver.err()),
                );
                break;
            }
        }
        libeval::install(self.scn.hash_key);
        if let Err(e) = a.authorizer() {
            self.violate("C02", "roundtrip-view-differs", format!("slot {idx}: no authorizer can be built for a token the API built: {e:?}"));
        }
        for (name, t) in [("from", &a), ("from_base64", &b), ("unverified", &c)] {
            match t.to_vec() {
                Ok(v) if v == bytes => {}
                other => self.violate(
                    "C02",
                    "roundtrip-bytes-differ",
                    format!("re-serialization through {name} differs for slot {idx}: {:?}", other.map(|v| v.len())),
                ),
            }
        }
        // ghost view: number of blocks and external keys
        let ghost = self.slots[idx].ghost.clone();
        let ext: Vec<Option<PubKey>> = a
            .external_public_keys()
            .iter()
            .map(|k| k.as_ref().map(PubKey::from_lib))
            .collect();
        if a.block_count() != ghost.len()
            || ext != ghost.iter().map(|g| g.external.clone()).collect::<Vec<_>>()
            || a.root_key_id() != self.scn.issuers[issuer].root_key_id
        {
            self.violate(
                "C02",
                "roundtrip-view-differs",
                format!("slot {idx}: block count / external keys / root key id differ from what was built"),
            );
        }
        // R1: independent verification of every signature against the specified layouts
        let rroot = self.scn.issuers[issuer].key.rkey();
        match refchain::verify(&bytes, &rroot) {
            Ok(content) => {
                // R1 signer: same keys and payloads must give the same bytes
                let mut blocks = Vec::new();
                for (i, g) in ghost.iter().enumerate() {
                    blocks.push(refchain::SignBlock {
                        payload: content.blocks[i].payload.clone(),
                        next_alg: g.next.alg,
                        next_secret: g.next.secret(),
                        external: g.ext_signer.map(|s| (s.alg, s.secret())),
                        version: content.blocks[i].version,
                    });
                }
                let root_spec = self.scn.issuers[issuer].key;
                match refchain::sign_token(
                    root_spec.alg,
                    &root_spec.secret(),
                    self.scn.issuers[issuer].root_key_id,
                    &blocks,
                    self.slots[idx].sealed,
                ) {
                    Ok(mine) => {
                        if mine != bytes {
                            self.violate(
                                "C02",
                                "ref-signer-differs",
                                format!("slot {idx}: reference signer produces different bytes from the same keys and payloads"),
                            );
                        }
                    }
                    Err(e) => self.harness.push(format!("reference signer failed: {e}")),
                }
            }
            Err(e) => self.violate(
                "C02",
                "ref-chain-rejects",
                format!("slot {idx}: reference chain verifier rejects a token the API built: {e}"),
            ),
        }
    }

    fn check_c16(&mut self, idx: usize) {
        let bytes = self.slots[idx].bytes.clone();
        let decoded = match wire::decode_token(&bytes) {
            Ok(d) => d,
            Err(e) => {
                let _ = e;
                self.stats.bump("c16.skipped_undecodable");
                return;
            }
        };
        let content = match refchain::content_of(&bytes) {
            Ok((_, c)) => c,
            Err(_) => return,
        };
        let ghost = self.slots[idx].ghost.clone();
        let issuer = self.slots[idx].issuer;
        let mut prev_sig_versions: Vec<u32> = Vec::new();
        let mut signer_alg = self.scn.issuers[issuer].key.alg;
        for (i, g) in ghost.iter().enumerate() {
            self.stats.oracle_evals += 1;
            let third = g.external.is_some();
            let want = versions::min_version(&g.ast, third);
            let got = decoded[i].version;
            if got != want {
                let class = if got < want { "version-underdeclared" } else { "version-overdeclared" };
                self.violate(
                    "C16",
                    class,
                    format!(
                        "slot {idx} block {i}: declared version {got}, lowest version containing its features is {want}; block: {}",
                        g.ast.source().replace('\n', " ")
                    ),
                );
            }
            let want_sig = versions::signature_version(third, want.max(got), signer_alg, g.next.alg, &prev_sig_versions);
            let got_sig = content.blocks[i].version;
            if got_sig != want_sig {
                self.violate(
                    "C16",
                    "sigversion-wrong",
                    format!("slot {idx} block {i}: signature version {got_sig}, expected {want_sig}"),
                );
            }
            if prev_sig_versions.iter().any(|v| *v > got_sig) {
                self.violate(
                    "C16",
                    "sigversion-not-monotone",
                    format!("slot {idx} block {i}: signature version goes back to {got_sig}"),
                );
            }
            prev_sig_versions.push(got_sig);
            signer_alg = g.next.alg;
        }
        if content.blocks.iter().any(|b| b.version == 1) {
            self.stats.bump("reach.sigv1");
        } else {
            self.stats.bump("reach.sigv0_only");
        }
    }

    fn check_c15(&mut self, idx: usize, op: &str) {
        let ids: Vec<Vec<u8>> = match &self.slots[idx].obj {
            Obj::V(b) => b.revocation_identifiers(),
            Obj::U(u) => u.revocation_identifiers(),
        };
        self.stats.oracle_evals += 1;
        // uniqueness through the convenience entry points that draw the next key from the OS:
        // the same block appended twice to the same token must get two different identifiers
        // (only this boolean enters the run's record, never the drawn values)
        if !self.slots[idx].sealed && self.cur % 4 == 0 {
            let twice: Option<(Vec<u8>, Vec<u8>)> = match &self.slots[idx].obj {
                Obj::V(b) => {
                    let bb = || biscuit_auth::builder::BlockBuilder::new().code("uniq(1);").unwrap();
                    match (b.append(bb()), b.append(bb())) {
                        (Ok(x), Ok(y)) => Some((x.revocation_identifiers().pop().unwrap_or_default(), y.revocation_identifiers().pop().unwrap_or_default())),
                        _ => None,
                    }
                }
                Obj::U(u) => {
                    let bb = || biscuit_auth::builder::BlockBuilder::new().code("uniq(1);").unwrap();
                    match (u.append(bb()), u.append(bb())) {
                        (Ok(x), Ok(y)) => Some((x.revocation_identifiers().pop().unwrap_or_default(), y.revocation_identifiers().pop().unwrap_or_default())),
                        _ => None,
                    }
                }
            };
            if let Some((x, y)) = twice {
                self.stats.bump("c15.os_rng_probe");
                self.stats.oracle_evals += 1;
                if x == y {
                    self.violate("C15", "revocation-id-collision", format!("slot {idx}: appending the same block twice through append() gives the same identifier"));
                }
            }
        }
        if let Some(p) = self.slots[idx].parent {
            let pids: Vec<Vec<u8>> = match &self.slots[p].obj {
                Obj::V(b) => b.revocation_identifiers(),
                Obj::U(u) => u.revocation_identifiers(),
            };
            let n = pids.len().min(ids.len());
            if ids[..n] != pids[..n] || ids.len() < pids.len() {
                self.violate(
                    "C15",
                    "revocation-id-changed",
                    format!("slot {idx} ({op}): identifiers of existing blocks differ from parent slot {p}"),
                );
            }
            let adds_block = matches!(op, "attenuate" | "tp_attach");
            if adds_block {
                if ids.len() != pids.len() + 1 {
                    self.violate("C15", "revocation-id-changed", format!("slot {idx}: wrong identifier count"));
                } else if self.seen_revocation_ids.contains(ids.last().unwrap()) {
                    self.violate(
                        "C15",
                        "revocation-id-collision",
                        format!("slot {idx}: new block's identifier was already used in this world"),
                    );
                }
            } else if ids.len() != pids.len() {
                self.violate("C15", "revocation-id-changed", format!("slot {idx} ({op}): identifier count changed"));
            }
        } else if ids.iter().any(|i| self.seen_revocation_ids.contains(i)) {
            self.violate(
                "C15",
                "revocation-id-collision",
                format!("slot {idx}: freshly minted token shares an identifier with an earlier one"),
            );
        }
        // after a round trip through bytes the identifiers are the same
        let root = self.root_pub(self.slots[idx].issuer);
        if let Ok(b) = Biscuit::from(&self.slots[idx].bytes, root) {
            if b.revocation_identifiers() != ids {
                self.violate("C15", "revocation-id-changed", format!("slot {idx}: identifiers change across a round trip"));
            }
        }
    }

    fn check_c08_seal(&mut self, idx: usize) {
        let p = match self.slots[idx].parent {
            Some(p) => p,
            None => return,
        };
        self.stats.oracle_evals += 1;
        let root = self.root_pub(self.slots[idx].issuer);
        let sealed = Biscuit::from(&self.slots[idx].bytes, root);
        let parent = Biscuit::from(&self.slots[p].bytes, root);
        match (sealed, parent) {
            (Ok(s), Ok(u)) => {
                if Self::describe(&s) != Self::describe(&u)
                    || s.revocation_identifiers() != u.revocation_identifiers()
                {
                    self.violate("C08", "sealed-differs", format!("slot {idx}: sealed token exposes different blocks or identifiers than slot {p}"));
                }
                let rroot = self.scn.issuers[self.slots[idx].issuer].key.rkey();
                if let Err(e) = refchain::verify(&self.slots[idx].bytes, &rroot) {
                    self.violate("C08", "ref-chain-rejects", format!("slot {idx}: reference verifier rejects the sealed token: {e}"));
                }
                for v in 0..self.scn.verifiers.len() {
                    let spec = &self.scn.verifiers[v];
                    let e1 = libeval::evaluate(Some(&s), &spec.authorizer, &spec.queries, self.scn.hash_key, spec.limits, false);
                    let e2 = libeval::evaluate(Some(&u), &spec.authorizer, &spec.queries, self.scn.hash_key, spec.limits, false);
                    self.stats.oracle_evals += 1;
                    if e1 != e2 {
                        self.violate(
                            "C08",
                            "sealed-authorizes-differently",
                            format!("slot {idx} vs {p}, verifier {v}: {:?} vs {:?}", e1.outcome, e2.outcome),
                        );
                    }
                }
            }
            (s, _) => self.violate("C08", "sealed-rejected", format!("slot {idx}: sealed token does not verify: {:?}", s.err())),
        }
        self.check_c08_seal_over_base(idx);
    }

    /// the same first-party history rebuilt over a base symbol table of the application's own
    /// (build_with_key_pair takes one; such tokens are read back with from_with_symbols), then
    /// sealed: the value seal() returns and the sealed bytes read back mean what the unsealed
    /// token means
    fn check_c08_seal_over_base(&mut self, idx: usize) {
        let ghost = self.slots[idx].ghost.clone();
        if ghost.iter().any(|g| g.external.is_some()) {
            return;
        }
        let issuer = self.slots[idx].issuer;
        let spec = self.scn.issuers[issuer].clone();
        let mut base = biscuit_auth::datalog::SymbolTable::new();
        for s in ["file1", "app_symbol", "x", "admin"] {
            base.insert(s);
        }
        let mut token: Option<Biscuit> = None;
        for (i, g) in ghost.iter().enumerate() {
            let bb = match g.ast.to_builder() {
                Ok(b) => b,
                Err(_) => return,
            };
            let _ = i;
            token = match token {
                None => {
                    let mut builder = BiscuitBuilder::new().merge(bb.clone());
                    for s in &bb.scopes {
                        builder = builder.scope(s.clone());
                    }
                    if let Some(id) = spec.root_key_id {
                        builder = builder.root_key_id(id);
                    }
                    builder.build_with_key_pair(&spec.key.keypair(), base.clone(), &g.next.keypair()).ok()
                }
                Some(t) => t.append_with_keypair(&g.next.keypair(), bb).ok(),
            };
            if token.is_none() {
                return;
            }
        }
        let unsealed = match token {
            Some(t) => t,
            None => return,
        };
        let sealed = match unsealed.seal() {
            Ok(s) => s,
            Err(e) => {
                self.violate("C08", "sealed-rejected", format!("slot {idx}: the same history over an application base symbol table cannot be sealed: {e:?}"));
                return;
            }
        };
        self.stats.bump("c08.sealed_over_base_table");
        let root = self.root_pub(issuer);
        let reloaded = sealed
            .to_vec()
            .map_err(|e| format!("{e:?}"))
            .and_then(|b| UnverifiedBiscuit::from_with_symbols(&b, base.clone()).map_err(|e| format!("{e:?}")))
            .and_then(|u| u.verify(root).map_err(|e| format!("{e:?}")));
        let reloaded = match reloaded {
            Ok(r) => r,
            Err(e) => {
                self.violate("C08", "sealed-rejected", format!("slot {idx}: sealed token over an application base symbol table does not read back: {e}"));
                return;
            }
        };
        for (what, t) in [("the value seal() returns", &sealed), ("the sealed bytes read back", &reloaded)] {
            self.stats.oracle_evals += 1;
            if Self::describe(t) != Self::describe(&unsealed) || t.revocation_identifiers() != unsealed.revocation_identifiers() {
                self.violate(
                    "C08",
                    "sealed-differs",
                    format!("slot {idx}: over an application base symbol table, {what} exposes different blocks or identifiers than the unsealed token"),
                );
                return;
            }
            for v in 0..self.scn.verifiers.len() {
                let vs = &self.scn.verifiers[v];
                let e1 = libeval::evaluate(Some(t), &vs.authorizer, &vs.queries, self.scn.hash_key, vs.limits, false);
                let e2 = libeval::evaluate(Some(&unsealed), &vs.authorizer, &vs.queries, self.scn.hash_key, vs.limits, false);
                if e1 != e2 {
                    self.violate(
                        "C08",
                        "sealed-authorizes-differently",
                        format!("slot {idx}, verifier {v}: over an application base symbol table, {what} gives {:?}, the unsealed token {:?}", e1.outcome, e2.outcome),
                    );
                    return;
                }
            }
        }
    }

    fn check_c12(&mut self, idx: usize) {
        let issuer = self.slots[idx].issuer;
        let root = self.root_pub(issuer);
        let bytes = self.slots[idx].bytes.clone();
        self.stats.oracle_evals += 1;
        // twin B: reloaded from bytes
        let reloaded = match Biscuit::from(&bytes, root) {
            Ok(b) => b,
            Err(e) => {
                self.violate("C12", "legit-token-rejected", format!("slot {idx}: {e:?}"));
                return;
            }
        };
        // twin A: the in-memory object (verified in place when it is unverified)
        let mem_obj: Result<Biscuit, UnverifiedBiscuit> = match &self.slots[idx].obj {
            Obj::V(b) => Ok(b.clone()),
            Obj::U(u) => Err(u.clone()),
        };
        let memory: Biscuit = match mem_obj {
            Ok(b) => b,
            Err(u) => {
                // unverified accessors first
                let ur = UnverifiedBiscuit::from(&bytes);
                if let Ok(ur) = ur {
                    for i in 0..u.block_count() {
                        let a = u.print_block_source(i).map_err(|e| format!("{e:?}"));
                        let b = ur.print_block_source(i).map_err(|e| format!("{e:?}"));
                        if a != b {
                            self.violate(
                                "C12",
                                "twin-differs",
                                format!("slot {idx} block {i}: unverified in-memory source {:?} vs reloaded {:?}", a, b),
                            );
                        }
                    }
                    if ur.to_vec().ok() != Some(bytes.clone()) {
                        self.violate("C12", "twin-differs", format!("slot {idx}: unverified reload re-serializes differently"));
                    }
                    // the unverified API prints what the verified API prints (two unverified
                    // twins can be wrong the same way)
                    for i in 0..u.block_count() {
                        let a = u.print_block_source(i).map_err(|e| format!("{e:?}"));
                        let b = reloaded.print_block_source(i).map_err(|e| format!("{e:?}"));
                        self.stats.oracle_evals += 1;
                        if a != b {
                            self.violate(
                                "C12",
                                "twin-differs",
                                format!("slot {idx} block {i}: UnverifiedBiscuit::print_block_source gives {:?}, Biscuit::print_block_source {:?}", a, b),
                            );
                        }
                    }
                }
                match u.clone().verify(root) {
                    Ok(b) => b,
                    Err(e) => {
                        self.violate("C12", "legit-token-rejected", format!("slot {idx}: verify() failed: {e:?}"));
                        return;
                    }
                }
            }
        };
        let n = memory.block_count().max(reloaded.block_count());
        for i in 0..n {
            let a = memory.print_block_source(i).map_err(|e| format!("{e:?}"));
            let b = reloaded.print_block_source(i).map_err(|e| format!("{e:?}"));
            if a != b {
                self.violate("C12", "twin-differs", format!("slot {idx} block {i}: in-memory source {:?} vs reloaded {:?}", a, b));
            }
            let a = memory.block_symbols(i).map_err(|e| format!("{e:?}"));
            let b = reloaded.block_symbols(i).map_err(|e| format!("{e:?}"));
            if a != b {
                self.violate("C12", "twin-differs", format!("slot {idx} block {i}: symbols {:?} vs {:?}", a, b));
            }
            let keys = |t: &Biscuit| {
                t.block_public_keys(i)
                    .map(|k| k.into_inner().iter().map(PubKey::from_lib).collect::<Vec<_>>())
                    .map_err(|e| format!("{e:?}"))
            };
            if keys(&memory) != keys(&reloaded) {
                self.violate("C12", "twin-differs", format!("slot {idx} block {i}: public keys differ"));
            }
            for t in [&memory, &reloaded] {
                if let Ok(s) = t.print_block_source(i) {
                    if s.contains("<unknown public key id>") || s.contains("?>") {
                        self.violate("C12", "placeholder-printed", format!("slot {idx} block {i}: {s}"));
                    }
                }
            }
        }
        if memory.to_vec().ok() != reloaded.to_vec().ok() {
            self.violate("C12", "twin-differs", format!("slot {idx}: twins serialize differently"));
        }
        // R3: every reference in the bytes resolves to what the block's author wrote
        match wire::decode_token(&bytes) {
            Ok(decoded) => {
                let ghost = self.slots[idx].ghost.clone();
                for (i, g) in ghost.iter().enumerate() {
                    self.stats.oracle_evals += 1;
                    match decoded.get(i) {
                        Some(d) if d.contents == g.ast => {}
                        Some(d) => self.violate(
                            "C12",
                            "references-resolve-wrong",
                            format!(
                                "slot {idx} block {i}: bytes decode to `{}` but the author wrote `{}`",
                                d.contents.source().replace('\n', " "),
                                g.ast.source().replace('\n', " ")
                            ),
                        ),
                        None => self.violate("C12", "references-resolve-wrong", format!("slot {idx}: block {i} missing")),
                    }
                }
            }
            Err(e) => self.violate(
                "C12",
                "references-resolve-wrong",
                format!("slot {idx}: a reference in the serialized token does not resolve: {e}"),
            ),
        }
        // same decisions for the verifiers' authorizers
        for v in 0..self.scn.verifiers.len() {
            let spec = &self.scn.verifiers[v];
            let e1 = libeval::evaluate(Some(&memory), &spec.authorizer, &spec.queries, self.scn.hash_key, spec.limits, true);
            let e2 = libeval::evaluate(Some(&reloaded), &spec.authorizer, &spec.queries, self.scn.hash_key, spec.limits, true);
            self.stats.oracle_evals += 1;
            if e1 != e2 {
                self.violate(
                    "C12",
                    "twin-authorizes-differently",
                    format!(
                        "slot {idx}, verifier {v}: memory build={:?} outcome={:?}; reloaded build={:?} outcome={:?}",
                        e1.build, e1.outcome, e2.build, e2.outcome
                    ),
                );
            }
        }
    }

    // -----------------------------------------------------------------------------------------
    // verifier side

    fn verify(&mut self, verifier: usize, token: usize, enc: Enc, via_unverified: bool) {
        if token >= self.slots.len() || self.scn.verifiers.is_empty() {
            return;
        }
        let verifier = verifier % self.scn.verifiers.len();
        let spec = self.scn.verifiers[verifier].clone();
        let issuer = self.slots[token].issuer;
        let root = self.root_pub(issuer);
        let bytes = self.slots[token].bytes.clone();
        let decoded: Result<Biscuit, String> = if via_unverified {
            UnverifiedBiscuit::from(&bytes)
                .map_err(|e| format!("{e:?}"))
                .and_then(|u| u.verify(root).map_err(|e| format!("{e:?}")))
        } else {
            match enc {
                Enc::Raw => Biscuit::from(&bytes, root).map_err(|e| format!("{e:?}")),
                Enc::B64 => Biscuit::from_base64(b64(&bytes), root).map_err(|e| format!("{e:?}")),
            }
        };
        let biscuit = match decoded {
            Ok(b) => b,
            Err(e) => {
                if self.mon.c02 {
                    self.stats.oracle_evals += 1;
                    self.violate("C02", "legit-token-rejected", format!("verifier rejects slot {token}: {e}"));
                }
                self.refused("verify", &e);
                return;
            }
        };
        self.stats.bump("op.verify.ok");
        if self.mon.c04 {
            self.check_c04(&biscuit, token, verifier, &spec);
        }
        if self.mon.c03 {
            self.check_c03(&biscuit, token, verifier, &spec);
        }
        // C12: what the token means to a verifier is what its authors wrote (R2 evaluates the
        // authors' own ASTs: every symbol and key reference must have resolved to the same thing)
        if self.mon.c12 {
            self.check_meaning("C12", "meaning-differs-from-written", &biscuit, token, verifier, &spec);
            // ... and so does the object the holder has in memory, which never went through bytes
            let in_memory: Option<Biscuit> = match &self.slots[token].obj {
                Obj::V(b) => Some(b.clone()),
                Obj::U(u) => u.clone().verify(root).ok(),
            };
            if let Some(m) = in_memory {
                self.stats.bump("c12.in_memory_twin_authorized");
                self.check_meaning("C12", "in-memory-meaning-differs-from-written", &m, token, verifier, &spec);
            }
        }
        // C07: a third-party block's facts are seen by exactly the scopes that name its key, on
        // every route to an evaluated authorizer; probe queries name every key of the scenario
        if self.mon.c07 && self.slots[token].ghost.iter().any(|g| g.external.is_some()) {
            let mut probed = spec.clone();
            probed.queries.extend(self.key_probe_queries(token));
            self.check_meaning("C07", "tp-facts-visibility", &biscuit, token, verifier, &probed);
        }
        if self.mon.c11 {
            self.check_c11(&biscuit, token, verifier, &spec);
        }
        if self.mon.c13 {
            self.check_c13(&biscuit, token, verifier, &spec);
        }
        if !self.mon.c04 && !self.mon.c03 {
            let e = libeval::evaluate(Some(&biscuit), &spec.authorizer, &[], self.scn.hash_key, spec.limits, false);
            self.stats.trace.push(format!(
                "verify:{}",
                e.outcome.map(|o| o.class()).unwrap_or_else(|| "buildfail".to_string())
            ));
        }
    }

    /// the C04 comparison with R2, reported under another property's name
    fn check_meaning(&mut self, property: &str, class: &str, biscuit: &Biscuit, token: usize, verifier: usize, spec: &VerifierSpec) {
        let before = self.violations.len();
        let keys = self.mon.hash_keys;
        self.check_c04(biscuit, token, verifier, spec);
        let _ = keys;
        for v in self.violations[before..].iter_mut() {
            v.property = property.to_string();
            v.class = format!("{class}-{}", v.class);
        }
    }

    /// `q(..) <- p(..) trusting <key>` for every key of the scenario and predicates of the
    /// token's third-party blocks (facts and rule heads)
    fn key_probe_queries(&self, token: usize) -> Vec<Rule> {
        let mut preds: BTreeSet<(String, usize)> = BTreeSet::new();
        for g in self.slots[token].ghost.iter().filter(|g| g.external.is_some()) {
            for f in &g.ast.facts {
                preds.insert((f.name.clone(), f.terms.len()));
            }
            for r in &g.ast.rules {
                preds.insert((r.head.name.clone(), r.head.terms.len()));
            }
        }
        let mut keys: Vec<crate::ast::PubKey> = self.scn.signers.iter().map(|s| s.public()).collect();
        keys.sort();
        keys.dedup();
        let mut out = Vec::new();
        for (name, arity) in preds.into_iter().filter(|(_, a)| *a > 0).take(3) {
            let vars: Vec<Term> = (0..arity).map(|i| Term::Var(format!("p{i}"))).collect();
            for k in &keys {
                out.push(Rule {
                    head: Pred { name: "q".to_string(), terms: vars.clone() },
                    body: vec![Pred { name: name.clone(), terms: vars.clone() }],
                    exprs: vec![],
                    scopes: vec![Scope::Key(k.clone())],
                });
            }
        }
        out
    }

    fn check_c04(&mut self, biscuit: &Biscuit, token: usize, verifier: usize, spec: &VerifierSpec) {
        let blocks = self.rblocks(token);
        let ext = refdl::ExternTable::new();
        let mut world = refdl::World::new(&blocks, &spec.authorizer, &ext);
        let want = world.authorize();
        if let refdl::Decision::Error(e) = &want {
            self.stats.bump("c04.skipped_reference_error");
            self.stats.trace.push(format!("verify:referr:{e:?}"));
            return;
        }
        let mut want_queries = Vec::new();
        for q in &spec.queries {
            want_queries.push((world.query(q, false), world.query(q, true)));
        }
        self.stats.trace.push(format!("verify:{}", Outcome::D(want.clone()).class()));
        self.stats.bump(&format!("c04.decision.{}", match &want {
            refdl::Decision::Allowed(_) => "allowed",
            refdl::Decision::Refused { allow: true, .. } => "refused_allow",
            refdl::Decision::Refused { allow: false, .. } => "refused_deny",
            refdl::Decision::NoPolicy { .. } => "nopolicy",
            refdl::Decision::Error(_) => "error",
        }));
        for k in 0..self.mon.hash_keys.max(1) {
            let hk = self.scn.hash_key.wrapping_add(k as u64);
            // every way of getting to an evaluated authorizer must agree with the semantics
            let route = libeval::ROUTES[(k + token + verifier) % libeval::ROUTES.len()];
            let got = libeval::evaluate_via(route, Some(biscuit), &spec.authorizer, &spec.queries, hk, spec.limits, true);
            self.stats.oracle_evals += 1;
            self.stats.bump(&format!("route.{route:?}"));
            if let Err(e) = &got.build {
                self.violate(
                    "C04",
                    "build-failed",
                    format!("slot {token} verifier {verifier}: authorizer cannot be built for a legitimate token ({route:?}): {e}"),
                );
                return;
            }
            let outcome = got.outcome.clone().unwrap();
            if outcome != Outcome::D(want.clone()) {
                self.violate(
                    "C04",
                    "decision-differs-from-model",
                    format!(
                        "slot {token} verifier {verifier} hash key {hk} ({route:?}): library {:?}, semantics {:?}",
                        outcome, want
                    ),
                );
                return;
            }
            for (i, (w, g)) in want_queries.iter().zip(got.queries.iter()).enumerate() {
                self.stats.oracle_evals += 1;
                let ok0 = match (&w.0, &g.0) {
                    (Ok(a), Ok(b)) => a == b,
                    (Err(_), _) => true,
                    _ => false,
                };
                let ok1 = match (&w.1, &g.1) {
                    (Ok(a), Ok(b)) => a == b,
                    (Err(_), _) => true,
                    _ => false,
                };
                if !ok0 || !ok1 {
                    self.violate(
                        "C04",
                        "query-differs-from-model",
                        format!(
                            "slot {token} verifier {verifier} query {i}: library {:?} / {:?}, semantics {:?} / {:?}",
                            g.0, g.1, w.0, w.1
                        ),
                    );
                    return;
                }
            }
            // the whole world: facts with their origins
            if let Some(Ok(facts)) = &got.facts {
                self.stats.oracle_evals += 1;
                if *facts != world.facts {
                    let missing: Vec<_> = world.facts.difference(facts).take(3).collect();
                    let extra: Vec<_> = facts.difference(&world.facts).take(3).collect();
                    self.violate(
                        "C04",
                        "world-differs-from-model",
                        format!("slot {token} verifier {verifier}: missing {:?} extra {:?}", missing, extra),
                    );
                    return;
                }
            }
        }
    }

    fn key_named_in_scopes(k: &PubKey, auth: &ast::Authorizer, earlier: &[GhostBlock]) -> bool {
        let hit = |s: &Vec<ast::Scope>| s.iter().any(|x| matches!(x, ast::Scope::Key(y) if y == k));
        if hit(&auth.scopes) {
            return true;
        }
        for r in auth
            .rules
            .iter()
            .chain(auth.checks.iter().flat_map(|c| c.queries.iter()))
            .chain(auth.policies.iter().flat_map(|p| p.queries.iter()))
        {
            if hit(&r.scopes) {
                return true;
            }
        }
        for g in earlier {
            if hit(&g.ast.scopes) {
                return true;
            }
            for r in g.ast.all_rules() {
                if hit(&r.scopes) {
                    return true;
                }
            }
        }
        false
    }

    fn check_c03(&mut self, child: &Biscuit, token: usize, verifier: usize, spec: &VerifierSpec) {
        let slot = &self.slots[token];
        let parent = match (slot.parent, slot.extends_parent) {
            (Some(p), true) => p,
            _ => return,
        };
        let new_block = slot.ghost.last().unwrap().clone();
        let new_id = slot.ghost.len() - 1;
        // queries are part of what the verifier "sees": they must not name the key either
        let mut auth_for_scan = spec.authorizer.clone();
        auth_for_scan.rules.extend(spec.queries.iter().cloned());
        if let Some(k) = &new_block.external {
            if Self::key_named_in_scopes(k, &auth_for_scan, &slot.ghost[..new_id]) {
                self.stats.bump("c03.skipped_trusted_key");
                return;
            }
        }
        let root = self.root_pub(slot.issuer);
        let parent_b = match Biscuit::from(&self.slots[parent].bytes, root) {
            Ok(b) => b,
            Err(_) => return,
        };
        let e_parent = libeval::evaluate(Some(&parent_b), &spec.authorizer, &spec.queries, self.scn.hash_key, spec.limits, true);
        // the extended token evaluated directly and through one of the snapshot routes: neither
        // may grant what the original was refused
        let second = libeval::ROUTES[1 + (token + verifier) % (libeval::ROUTES.len() - 1)];
        for route in [libeval::Route::Direct, second] {
        let e_child = libeval::evaluate_via(route, Some(child), &spec.authorizer, &spec.queries, self.scn.hash_key, spec.limits, true);
        let (oc, op) = match (&e_child.outcome, &e_parent.outcome) {
            (Some(a), Some(b)) => (a.clone(), b.clone()),
            _ => {
                self.stats.bump("c03.skipped_build_failed");
                return;
            }
        };
        if !matches!(oc, Outcome::D(_)) || !matches!(op, Outcome::D(_)) {
            self.stats.bump("c03.skipped_error_or_limit");
            return;
        }
        self.stats.oracle_evals += 1;
        self.stats.trace.push(format!("c03:{}->{}", op.class(), oc.class()));
        if oc.is_allowed() {
            self.stats.bump("c03.child_allowed");
        }
        if oc.is_allowed() && !op.is_allowed() {
            self.violate(
                "C03",
                "attenuation-grants",
                format!(
                    "slot {token} (parent {parent}) verifier {verifier} ({route:?}): extended token {:?} but original {:?}; new block: {}",
                    oc, op, new_block.ast.source().replace('\n', " ")
                ),
            );
            return;
        }
        let fc = oc.failed_checks().unwrap_or_default();
        let fp = op.failed_checks().unwrap_or_default();
        if let Some(c) = fp.iter().find(|c| !fc.contains(c)) {
            self.violate(
                "C03",
                "attenuation-repairs-check",
                format!(
                    "slot {token} (parent {parent}) verifier {verifier}: check {:?} failed on the original and passes on the extended token; new block: {}",
                    c, new_block.ast.source().replace('\n', " ")
                ),
            );
            return;
        }
        if let (Some(Ok(fc)), Some(Ok(fp))) = (&e_child.facts, &e_parent.facts) {
            self.stats.oracle_evals += 1;
            let without_new: BTreeSet<_> = fc.iter().filter(|(o, _)| !o.contains(&new_id)).cloned().collect();
            if without_new != *fp {
                let extra: Vec<_> = without_new.difference(fp).take(3).collect();
                let missing: Vec<_> = fp.difference(&without_new).take(3).collect();
                self.violate(
                    "C03",
                    "attenuation-changes-earlier-facts",
                    format!(
                        "slot {token} (parent {parent}) verifier {verifier}: facts not owned by the new block differ: extra {:?} missing {:?}",
                        extra, missing
                    ),
                );
                return;
            }
        }
        // queries limited to authority + authorizer cannot change
        for (i, (qc, qp)) in e_child.queries.iter().zip(e_parent.queries.iter()).enumerate() {
            self.stats.oracle_evals += 1;
            if spec.queries[i].scopes.is_empty() && qc.0 != qp.0 {
                self.violate(
                    "C03",
                    "attenuation-changes-query",
                    format!("slot {token} verifier {verifier} query {i} ({route:?}): {:?} vs {:?}", qc.0, qp.0),
                );
            }
        }
        }
    }
}

pub fn run_scenario(scn: &Scenario, mon: &Monitors) -> (Vec<Violation>, Stats, Vec<String>) {
    let _ = libeval::digest_take();
    let mut run = Run::new(scn, mon);
    run.execute();
    for v in &run.violations {
        libeval::digest_mix(format!("{v:?}").as_bytes());
    }
    for h in &run.harness {
        libeval::digest_mix(h.as_bytes());
    }
    libeval::digest_mix(run.stats.trace.join("|").as_bytes());
    libeval::digest_mix(format!("{:?}", run.stats.counters).as_bytes());
    run.stats.digest = libeval::digest_take();
    (run.violations, run.stats, run.harness)
}
