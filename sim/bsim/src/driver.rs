//! Generic seeded search driver: runs an engine over many run seeds on a worker pool whose size
//! never influences any run, aggregates statistics in run order, minimises the first violation,
//! writes the replay file and the evidence file.
use crate::known::{self, Known};
use crate::rng::{fnv, mix};
use crate::world::{Stats, Violation};
use serde::de::DeserializeOwned;
use serde::Serialize;
use serde_json::{json, Value};
use std::collections::{BTreeMap, BTreeSet};
use std::panic::{catch_unwind, AssertUnwindSafe};
use std::sync::atomic::{AtomicUsize, Ordering};
use std::sync::Mutex;
use std::time::Instant;

pub const DEFAULT_SEED: u64 = 20260922;

#[derive(Clone, Debug, Default)]
pub struct CaseResult {
    pub violations: Vec<Violation>,
    pub stats: Stats,
    pub harness: Vec<String>,
}

pub trait Engine: Sync {
    type Case: Serialize + DeserializeOwned + Clone + Send + Sync;
    fn name(&self) -> &'static str;
    fn property(&self) -> &str;
    fn generate(&self, run_seed: u64) -> Self::Case;
    fn execute(&self, case: &Self::Case) -> CaseResult;
    /// smaller variants of a failing case, most aggressive first
    fn shrink(&self, case: &Self::Case) -> Vec<Self::Case>;
    /// counters that must be non-zero at the end of a batch (else exit 2)
    fn reach_probes(&self) -> Vec<&'static str> {
        vec![]
    }
    fn level(&self) -> &'static str;
    fn rule(&self) -> String;
    fn components_real(&self) -> Vec<&'static str> {
        vec![
            "biscuit-auth crypto",
            "biscuit-auth format (protobuf container, convert)",
            "biscuit-auth token (Biscuit, UnverifiedBiscuit, third_party, builders)",
            "biscuit-auth datalog engine",
            "biscuit-auth authorizer and snapshot",
            "biscuit-parser",
        ]
    }
    fn components_stubbed(&self) -> Vec<&'static str> {
        vec![
            "transport and storage between API calls (owned by the simulator)",
            "clock source (virtual, work-driven, hook H2+H4)",
            "hash keys of the engine's fact/rule containers (hook H3)",
            "OS randomness for next keys (seeded key pairs through *_with_keypair)",
        ]
    }
    fn assumptions(&self) -> Vec<String>;
    /// a panic while executing a case is a property violation (true) or a harness error (false)
    fn panic_is_violation(&self) -> Option<(&'static str, &'static str)> {
        None
    }
    /// run the cases in supervised child processes (needed when a case can abort the process)
    fn isolate(&self) -> bool {
        false
    }
    /// violations on fixed inputs checked before the search (conformance corpus), with the
    /// replay case of each, and the number of comparisons made
    fn fixed_inputs(&self) -> (Vec<(Violation, Value)>, u64) {
        (vec![], 0)
    }
    /// independent parts of a case (used to attribute a process death)
    fn split(&self, _case: &Self::Case) -> Vec<Self::Case> {
        vec![]
    }
    /// the parts returned by `split` are prefixes of growing length
    fn split_is_prefix_chain(&self) -> bool {
        false
    }
    /// short structural description of a case (used in the detail of abort / hang violations)
    fn describe(&self, _case: &Self::Case) -> String {
        String::new()
    }
}

pub struct Opts {
    pub tier: String,
    pub seed: u64,
    pub runs: usize,
    pub threads: usize,
    pub verif_dir: String,
}

pub fn safe_execute<E: Engine>(e: &E, case: &E::Case) -> CaseResult {
    let _ = crate::libeval::digest_take();
    match catch_unwind(AssertUnwindSafe(|| e.execute(case))) {
        Ok(mut r) => {
            if r.stats.digest == 0 {
                for v in &r.violations {
                    crate::libeval::digest_mix(format!("{v:?}").as_bytes());
                }
                for h in &r.harness {
                    crate::libeval::digest_mix(h.as_bytes());
                }
                crate::libeval::digest_mix(r.stats.trace.join("|").as_bytes());
                crate::libeval::digest_mix(format!("{:?}", r.stats.counters).as_bytes());
                r.stats.digest = crate::libeval::digest_take();
            }
            r
        }
        Err(p) => {
            let msg = if let Some(s) = p.downcast_ref::<String>() {
                s.clone()
            } else if let Some(s) = p.downcast_ref::<&str>() {
                s.to_string()
            } else {
                "panic".to_string()
            };
            let loc = crate::panic_location();
            let mut r = CaseResult::default();
            match e.panic_is_violation() {
                Some((prop, class)) => r.violations.push(Violation {
                    property: prop.to_string(),
                    class: class.to_string(),
                    event: None,
                    detail: format!("panic: {msg} at {loc}"),
                    focus: None,
                }),
                None => r.harness.push(format!("panic while executing case: {msg} at {loc}")),
            }
            r
        }
    }
}

/// triage aid (never set by the registered commands): BSIM_ONLY=<text> keeps only violations
/// whose class or detail contains the text, BSIM_NOT=<text> drops those that do
fn triage_filter(v: &Violation) -> bool {
    if let Ok(t) = std::env::var("BSIM_ONLY") {
        if !(v.class.contains(&t) || v.detail.contains(&t)) {
            return false;
        }
    }
    if let Ok(t) = std::env::var("BSIM_NOT") {
        if v.class.contains(&t) || v.detail.contains(&t) {
            return false;
        }
    }
    true
}

fn same_failure(a: &Violation, b: &Violation) -> bool {
    a.property == b.property && a.class == b.class
}

/// delta debugging: keep any smaller case that still fails in the same class
pub fn minimise<E: Engine>(e: &E, case: &E::Case, target: &Violation, known: &Known) -> (E::Case, Violation) {
    let mut best = case.clone();
    let mut best_v = target.clone();
    let mut budget = 400usize;
    loop {
        let mut improved = false;
        for cand in e.shrink(&best) {
            if budget == 0 {
                return (best, best_v);
            }
            budget -= 1;
            let r = safe_execute(e, &cand);
            if let Some(v) = r
                .violations
                .iter()
                .find(|v| same_failure(v, target) && known.matches(v).is_none() && triage_filter(v))
            {
                best = cand;
                best_v = v.clone();
                improved = true;
                break;
            }
        }
        if !improved {
            return (best, best_v);
        }
    }
}

pub fn write_replay<E: Engine>(
    e: &E,
    opts: &Opts,
    run_seed: u64,
    case: &E::Case,
    v: &Violation,
) -> String {
    let dir = format!("{}/replays", opts.verif_dir);
    let _ = std::fs::create_dir_all(&dir);
    let path = format!("{}/{}-{}.json", dir, v.property, run_seed);
    let doc = json!({
        "format": 1,
        "engine": e.name(),
        "property": v.property,
        "run_seed": run_seed,
        "violation": v,
        "case": case,
    });
    let _ = std::fs::write(&path, serde_json::to_string_pretty(&doc).unwrap());
    path
}

pub struct Summary {
    pub exit_code: i32,
}

#[derive(Clone, Debug, Default, serde::Serialize, serde::Deserialize)]
pub struct RunOut {
    pub stats: Stats,
    pub harness: Vec<String>,
    pub violations: Vec<Violation>,
    /// for a case that killed its process: the part of it that does so alone
    #[serde(default)]
    pub case_json: Option<String>,
}

/// child side of process isolation: runs the cases i = offset, offset + stride, ... > after,
/// announcing each one before executing it so that the parent can attribute an abnormal death
pub fn worker_loop<E: Engine>(e: &E, seed: u64, runs: usize, stride: usize, offset: usize, after: i64) {
    use std::io::Write;
    let out = std::io::stdout();
    let mut i = offset;
    while i < runs {
        if (i as i64) > after {
            {
                let mut o = out.lock();
                let _ = writeln!(o, "B {i}");
                let _ = o.flush();
            }
            let run_seed = mix(seed, i as u64);
            let case = e.generate(run_seed);
            let r = safe_execute(e, &case);
            let ro = RunOut { stats: r.stats, harness: r.harness, violations: r.violations, case_json: None };
            let mut o = out.lock();
            let _ = writeln!(o, "E {i} {}", serde_json::to_string(&ro).unwrap_or_default());
            let _ = o.flush();
        }
        i += stride;
    }
}

/// runs one case alone in a fresh child process; Some(how) when the child dies
pub fn dies_alone<E: Engine>(e: &E, exe: &std::path::Path, case: &E::Case) -> Option<String> {
    use std::process::{Command, Stdio};
    let path = format!("/tmp/bsim-case-{}-{:x}.json", std::process::id(), fnv(serde_json::to_string(case).unwrap_or_default().as_bytes()));
    let doc = json!({ "format": 1, "engine": e.name(), "property": e.property(), "case": case });
    if std::fs::write(&path, serde_json::to_string(&doc).unwrap_or_default()).is_err() {
        return None;
    }
    // the child is watched like the workers are: a case that corrupts its process may leave it
    // stuck (a deadlocked allocator, for one) instead of killing it
    let status = Command::new(exe)
        .args(["exec-case", &path])
        .stdout(Stdio::null())
        .stderr(Stdio::null())
        .spawn()
        .and_then(|mut child| {
            let deadline = Instant::now() + std::time::Duration::from_secs(20);
            loop {
                match child.try_wait()? {
                    Some(st) => return Ok(st),
                    None if Instant::now() >= deadline => {
                        let _ = child.kill();
                        return child.wait();
                    }
                    None => std::thread::sleep(std::time::Duration::from_millis(20)),
                }
            }
        });
    let _ = std::fs::remove_file(&path);
    match status {
        Ok(st) => {
            use std::os::unix::process::ExitStatusExt;
            match st.signal() {
                Some(sig) => Some(format!("killed by signal {sig}")),
                None => None,
            }
        }
        Err(_) => None,
    }
}

/// parent side: one supervised child process per worker; a child that dies (abort, stack
/// overflow, signal) or stalls is attributed to the case it announced, recorded, and restarted
/// past that case
fn run_isolated<E: Engine>(e: &E, opts: &Opts) -> Vec<Option<RunOut>> {
    use std::io::{BufRead, BufReader};
    use std::process::{Command, Stdio};
    let n = opts.runs;
    let stride = opts.threads.max(1);
    let results: Mutex<Vec<Option<RunOut>>> = Mutex::new((0..n).map(|_| None).collect());
    let exe = std::env::current_exe().expect("current exe");
    let limit = std::time::Duration::from_secs(30);
    // a defect that kills or stalls the process on many cases would otherwise cost one watchdog
    // period per case: after this many dead workers the batch stops (the violations found so far
    // are reported; the runs not executed are counted as such)
    let deaths = AtomicUsize::new(0);
    let attributed = AtomicUsize::new(0);
    const MAX_DEATHS: usize = 16;
    std::thread::scope(|s| {
        for k in 0..stride {
            let results = &results;
            let (deaths, attributed) = (&deaths, &attributed);
            let exe = exe.clone();
            s.spawn(move || {
                let mut after: i64 = -1;
                loop {
                    if deaths.load(Ordering::SeqCst) >= MAX_DEATHS {
                        return;
                    }
                    let mut child = match Command::new(&exe)
                        .args([
                            "worker",
                            "--property",
                            e.property(),
                            "--seed",
                            &opts.seed.to_string(),
                            "--runs",
                            &n.to_string(),
                            "--stride",
                            &stride.to_string(),
                            "--offset",
                            &k.to_string(),
                            "--after",
                            &after.to_string(),
                        ])
                        .stdout(Stdio::piped())
                        .stderr(Stdio::null())
                        .spawn()
                    {
                        Ok(c) => c,
                        Err(err) => {
                            eprintln!("HARNESS: cannot spawn worker: {err}");
                            return;
                        }
                    };
                    let pid = child.id();
                    let stdout = child.stdout.take().unwrap();
                    // watchdog: kills the child when one case takes longer than the limit
                    let current: std::sync::Arc<Mutex<Option<(usize, Instant)>>> = std::sync::Arc::new(Mutex::new(None));
                    let done = std::sync::Arc::new(std::sync::atomic::AtomicBool::new(false));
                    let (c2, d2) = (current.clone(), done.clone());
                    let watchdog = std::thread::spawn(move || {
                        while !d2.load(Ordering::SeqCst) {
                            std::thread::sleep(std::time::Duration::from_millis(200));
                            if let Some((_, t)) = *c2.lock().unwrap() {
                                if t.elapsed() > limit {
                                    unsafe {
                                        libc::kill(pid as i32, libc::SIGKILL);
                                    }
                                    return true;
                                }
                            }
                        }
                        false
                    });
                    let mut open: Option<usize> = None;
                    for line in BufReader::new(stdout).lines() {
                        let line = match line {
                            Ok(l) => l,
                            Err(_) => break,
                        };
                        if let Some(rest) = line.strip_prefix("B ") {
                            if let Ok(i) = rest.trim().parse::<usize>() {
                                open = Some(i);
                                *current.lock().unwrap() = Some((i, Instant::now()));
                            }
                        } else if let Some(rest) = line.strip_prefix("E ") {
                            let mut parts = rest.splitn(2, ' ');
                            let i = parts.next().and_then(|x| x.parse::<usize>().ok());
                            let body = parts.next().unwrap_or("");
                            if let (Some(i), Ok(ro)) = (i, serde_json::from_str::<RunOut>(body)) {
                                results.lock().unwrap()[i] = Some(ro);
                                after = i as i64;
                                open = None;
                                *current.lock().unwrap() = None;
                            }
                        }
                        // anything else is output of the code under test (e.g. println! in the library)
                    }
                    let status = child.wait();
                    done.store(true, Ordering::SeqCst);
                    let hung = watchdog.join().unwrap_or(false);
                    match open {
                        None => return, // clean end of this worker's share
                        Some(i) => {
                            let how = match &status {
                                Ok(st) => {
                                    use std::os::unix::process::ExitStatusExt;
                                    match st.signal() {
                                        Some(sig) => format!("killed by signal {sig}"),
                                        None => format!("exit status {:?}", st.code()),
                                    }
                                }
                                Err(err) => format!("wait failed: {err}"),
                            };
                            let (prop, class) = if hung { (e.property(), "hang") } else { (e.property(), "abort") };
                            let mut ro = RunOut::default();
                            ro.stats.oracle_evals = 1;
                            ro.stats.trace.push(format!("{class}:{how}"));
                            // attribute the death to one part of the case: each part is run
                            // alone in a fresh child
                            let case = e.generate(mix(opts.seed, i as u64));
                            let mut what = e.describe(&case);
                            // (attribution re-runs parts of the case in fresh processes: done for
                            // the first deaths of a batch, the later ones name the whole case)
                            if !hung && (!e.split_is_prefix_chain() || attributed.fetch_add(1, Ordering::SeqCst) < 64) {
                                let parts = e.split(&case);
                                if e.split_is_prefix_chain() && !parts.is_empty() {
                                    // longer prefixes die whenever a shorter one does: bisect
                                    let (mut lo, mut hi) = (0usize, parts.len() - 1);
                                    if dies_alone(e, &exe, &parts[hi]).is_some() {
                                        while lo < hi {
                                            let mid = (lo + hi) / 2;
                                            if dies_alone(e, &exe, &parts[mid]).is_some() {
                                                hi = mid;
                                            } else {
                                                lo = mid + 1;
                                            }
                                        }
                                        what = format!("{} ({how})", e.describe(&parts[lo]));
                                        ro.case_json = serde_json::to_string(&parts[lo]).ok();
                                    }
                                } else {
                                    for sub in parts {
                                        if let Some(h) = dies_alone(e, &exe, &sub) {
                                            what = format!("{} ({h})", e.describe(&sub));
                                            ro.case_json = serde_json::to_string(&sub).ok();
                                            break;
                                        }
                                    }
                                }
                            }
                            ro.violations.push(Violation {
                                property: prop.to_string(),
                                class: class.to_string(),
                                event: None,
                                detail: if hung {
                                    format!("the worker process made no progress for {} s on this case and was killed ;; {what}", limit.as_secs())
                                } else {
                                    format!("the worker process died while executing this case: {how} ;; {what}")
                                },
                                focus: None,
                            });
                            results.lock().unwrap()[i] = Some(ro);
                            after = i as i64;
                            // (only stalls are expensive; a worker that aborts does so at once)
                            if hung {
                                deaths.fetch_add(1, Ordering::SeqCst);
                            }
                            // restart past the fatal case
                        }
                    }
                }
            });
        }
    });
    let mut v = results.into_inner().unwrap();
    for r in v.iter_mut() {
        if r.is_none() {
            let mut ro = RunOut::default();
            ro.harness.push("a worker produced no result for this run".to_string());
            *r = Some(ro);
        }
    }
    v
}

/// per-run digests (every library result, token byte string, event and counter of the run):
/// the determinism proof compares them across repetitions, worker counts and processes
pub fn digests<E: Engine>(e: &E, seed: u64, runs: usize, threads: usize) -> Vec<(u64, u64)> {
    if e.isolate() {
        // engines whose cases may kill their process: same supervised workers as the check; the
        // digest covers the case, everything the worker recorded and how a dead worker died
        let opts = Opts { tier: "digest".to_string(), seed, runs, threads, verif_dir: String::new() };
        return run_isolated(e, &opts)
            .into_iter()
            .enumerate()
            .map(|(i, r)| {
                let run_seed = mix(seed, i as u64);
                let case = e.generate(run_seed);
                let case_digest = fnv(serde_json::to_string(&case).unwrap_or_default().as_bytes());
                let ro = r.unwrap_or_default();
                let mut d = mix(case_digest, ro.stats.digest);
                d = mix(d, fnv(ro.stats.trace.join("\n").as_bytes()));
                d = mix(d, fnv(format!("{:?}", ro.stats.counters).as_bytes()));
                for v in &ro.violations {
                    d = mix(d, fnv(format!("{}|{}|{}", v.property, v.class, v.detail).as_bytes()));
                }
                (run_seed, d)
            })
            .collect();
    }
    let next = AtomicUsize::new(0);
    let out: Mutex<Vec<(u64, u64)>> = Mutex::new(vec![(0, 0); runs]);
    std::thread::scope(|s| {
        for _ in 0..threads.max(1) {
            s.spawn(|| loop {
                let i = next.fetch_add(1, Ordering::SeqCst);
                if i >= runs {
                    break;
                }
                let run_seed = mix(seed, i as u64);
                let case = e.generate(run_seed);
                // the case itself is part of what must be reproducible
                let case_digest = fnv(serde_json::to_string(&case).unwrap_or_default().as_bytes());
                let r = safe_execute(e, &case);
                out.lock().unwrap()[i] = (run_seed, mix(case_digest, r.stats.digest));
            });
        }
    });
    out.into_inner().unwrap()
}

pub fn run_check<E: Engine>(e: &E, opts: &Opts) -> Summary {
    let start = Instant::now();
    let known = known::load(&opts.verif_dir);
    let prop = e.property().to_string();
    println!(
        "VERIF_SEED={} property={} engine={} tier={} runs={} threads={}",
        opts.seed,
        prop,
        e.name(),
        opts.tier,
        opts.runs,
        opts.threads
    );

    // 1. regression traces: fixed defects must pass, open findings are reported as such
    let mut exit_code = 0;
    let mut violation_count = 0usize;
    let mut known_hits: BTreeMap<String, u64> = BTreeMap::new();
    let mut regress_replayed = 0usize;
    let regress = known::regress_files(&opts.verif_dir, &prop, e.name());
    for (path, doc) in &regress {
        let case: E::Case = match serde_json::from_value(doc["case"].clone()) {
            Ok(c) => c,
            Err(err) => {
                eprintln!("HARNESS: regression trace {path} does not parse: {err}");
                exit_code = 2;
                continue;
            }
        };
        regress_replayed += 1;
        let r = if e.isolate() {
            // a trace that kills its process is replayed in a child
            let exe = std::env::current_exe().expect("current exe");
            match dies_alone(e, &exe, &case) {
                Some(how) => {
                    let mut r = CaseResult::default();
                    r.violations.push(Violation {
                        property: prop.clone(),
                        class: "abort".to_string(),
                        event: None,
                        detail: format!("the worker process died while executing this case: {how} ;; {}", e.describe(&case)),
                        focus: None,
                    });
                    r
                }
                None => safe_execute(e, &case),
            }
        } else {
            safe_execute(e, &case)
        };
        for v in r.violations.iter().filter(|v| v.property == prop) {
            match known.matches(v) {
                Some(id) => {
                    *known_hits.entry(id).or_insert(0) += 1;
                }
                None => {
                    let p = write_replay(e, opts, 0, &case, v);
                    println!("violation (regression trace {path}): {} {}", v.class, v.detail);
                    println!("VIOLATION property={} replay={}", v.property, p);
                    violation_count += 1;
                    exit_code = 1;
                }
            }
        }
    }

    // 1b. fixed inputs (the conformance corpus): what the library does on them
    let (fixed, fixed_evaluated) = e.fixed_inputs();
    for (v, case) in fixed.iter().filter(|(v, _)| v.property == prop) {
        match known.matches(v) {
            Some(id) => {
                *known_hits.entry(id).or_insert(0) += 1;
            }
            None => {
                let dir = format!("{}/replays", opts.verif_dir);
                let _ = std::fs::create_dir_all(&dir);
                let path = format!("{}/{}-corpus-{}.json", dir, prop, fnv(v.detail.as_bytes()) % 100_000);
                let doc = json!({ "format": 1, "engine": "corpus", "property": prop, "violation": v, "case": case });
                let _ = std::fs::write(&path, serde_json::to_string_pretty(&doc).unwrap());
                println!("violation (conformance corpus): class={} {}", v.class, v.detail);
                println!("VIOLATION property={} replay={}", prop, path);
                violation_count += 1;
                exit_code = 1;
            }
        }
    }

    // 2. seeded search
    let n = opts.runs;
    let results: Vec<Option<RunOut>> = if e.isolate() {
        run_isolated(e, opts)
    } else {
        let next = AtomicUsize::new(0);
        let results: Mutex<Vec<Option<RunOut>>> = Mutex::new((0..n).map(|_| None).collect());
        std::thread::scope(|s| {
            for _ in 0..opts.threads.max(1) {
                s.spawn(|| loop {
                    let i = next.fetch_add(1, Ordering::SeqCst);
                    if i >= n {
                        break;
                    }
                    let run_seed = mix(opts.seed, i as u64);
                    let case = e.generate(run_seed);
                    let r = safe_execute(e, &case);
                    results.lock().unwrap()[i] = Some(RunOut {
                        stats: r.stats,
                        harness: r.harness,
                        violations: r.violations,
                        case_json: None,
                    });
                });
            }
        });
        results.into_inner().unwrap()
    };

    let mut counters: BTreeMap<String, u64> = BTreeMap::new();
    let mut distinct: BTreeSet<u64> = BTreeSet::new();
    let mut nontrivial = 0u64;
    let mut oracle_evals = 0u64;
    let mut harness_msgs: BTreeMap<String, u64> = BTreeMap::new();
    let mut first_new: Option<(usize, Violation)> = None;
    let mut kinds: BTreeMap<String, u64> = BTreeMap::new();
    let mut samples: Vec<Value> = Vec::new();
    for (i, r) in results.iter().enumerate() {
        let r = r.as_ref().unwrap();
        for (k, v) in &r.stats.counters {
            let c = counters.entry(k.clone()).or_insert(0);
            *c = c.saturating_add(*v);
        }
        oracle_evals += r.stats.oracle_evals;
        if r.stats.oracle_evals > 0 {
            nontrivial += 1;
            distinct.insert(fnv(r.stats.trace.join("|").as_bytes()));
        }
        for h in &r.harness {
            let key: String = h.chars().take(160).collect();
            *harness_msgs.entry(key).or_insert(0) += 1;
        }
        for v in r.violations.iter().filter(|v| v.property == prop && triage_filter(v)) {
            match known.matches(v) {
                Some(id) => {
                    *known_hits.entry(id).or_insert(0) += 1;
                }
                None => {
                    violation_count += 1;
                    let key: String = format!("{}: {}", v.class, v.detail.chars().take(140).collect::<String>());
                    *kinds.entry(key).or_insert(0) += 1;
                    if first_new.is_none() {
                        first_new = Some((i, v.clone()));
                    }
                }
            }
        }
        if samples.len() < 3 && r.stats.oracle_evals > 0 && (i % 7 == 0 || i + 3 >= n) {
            let run_seed = mix(opts.seed, i as u64);
            samples.push(json!({
                "run_seed": run_seed,
                "abstract_trace": r.stats.trace,
                "case": e.generate(run_seed),
            }));
        }
    }

    if std::env::var("BSIM_LIST").is_ok() {
        for (k, c) in kinds.iter().take(2000) {
            println!("  [{c}x] {k}");
        }
    }
    if let Some((i, v)) = &first_new {
        let run_seed = mix(opts.seed, *i as u64);
        let case = e.generate(run_seed);
        // a case that kills or stalls its process cannot be re-executed in this one
        let (small, v2) = if v.class == "abort" || v.class == "hang" {
            // the part of the case that kills a process alone, when the supervisor found one
            let part = results[*i]
                .as_ref()
                .and_then(|r| r.case_json.as_ref())
                .and_then(|j| serde_json::from_str::<E::Case>(j).ok());
            (part.unwrap_or_else(|| case.clone()), v.clone())
        } else {
            minimise(e, &case, v, &known)
        };
        let path = write_replay(e, opts, run_seed, &small, &v2);
        println!("violation: class={} run_seed={} {}", v2.class, run_seed, v2.detail);
        println!("VIOLATION property={} replay={}", v2.property, path);
        exit_code = 1;
    }

    for (id, what) in known.open_for(&prop) {
        let hits = known_hits.get(&id).cloned().unwrap_or(0);
        if hits > 0 {
            println!("KNOWN-FINDING: property={} {} [{}; {} hits in this run]", prop, what, id, hits);
        } else {
            // an open finding that no longer reproduces: say so, it is not an alarm
            println!("note: known finding {id} was not hit in this run");
        }
    }

    // harness problems and reach probes: exit 2, never a VIOLATION
    let mut harness_total = 0u64;
    for (m, c) in &harness_msgs {
        harness_total += c;
        eprintln!("HARNESS ({c}x): {m}");
    }
    if exit_code == 0 && harness_total > 0 {
        exit_code = 2;
    }
    let mut missing_probes = Vec::new();
    for p in e.reach_probes() {
        if counters.get(p).cloned().unwrap_or(0) == 0 {
            missing_probes.push(p);
        }
    }
    if exit_code == 0 && !missing_probes.is_empty() && opts.runs >= 200 {
        eprintln!("HARNESS: reach probes at zero: {:?}", missing_probes);
        exit_code = 2;
    }

    let wall = start.elapsed().as_secs_f64();
    let faults: BTreeMap<&String, &u64> = counters.iter().filter(|(k, _)| k.starts_with("fault.")).collect();
    let evidence = json!({
        "property_id": prop,
        "tier": opts.tier,
        "seed": opts.seed,
        "level": e.level(),
        "coverage": {
            "evaluations": n,
            "distinct_nontrivial": distinct.len(),
            "rule": e.rule(),
            "samples": samples,
            "nontrivial_runs": nontrivial,
            "oracle_clauses_evaluated": oracle_evals,
            "runs_per_hour": if wall > 0.0 { (n as f64 / wall * 3600.0) as u64 } else { 0 },
            "simulated_time_ns": counters.get("sim.time_ns").cloned().unwrap_or(0),
            "fault_kinds_fired": faults,
            "counters": counters,
            "reach_probes_missing": missing_probes,
            "known_finding_hits": known_hits,
            "regression_traces_replayed": regress_replayed,
            "conformance_corpus_comparisons": fixed_evaluated,
            "components_real": e.components_real(),
            "components_stubbed": e.components_stubbed(),
            "threads": opts.threads,
        },
        "assumptions": e.assumptions(),
        "wall_s": wall,
        "violations": violation_count,
    });
    let dir = format!("{}/evidence", opts.verif_dir);
    let _ = std::fs::create_dir_all(&dir);
    let path = format!("{}/{}.json", dir, prop);
    if let Err(err) = std::fs::write(&path, serde_json::to_string_pretty(&evidence).unwrap()) {
        eprintln!("HARNESS: cannot write evidence {path}: {err}");
        if exit_code == 0 {
            exit_code = 2;
        }
    }
    println!(
        "done: property={} runs={} nontrivial={} distinct_traces={} oracle_clauses={} violations={} known_hits={:?} wall={:.1}s exit={}",
        prop,
        n,
        nontrivial,
        distinct.len(),
        oracle_evals,
        violation_count,
        known_hits,
        wall,
        exit_code
    );
    Summary { exit_code }
}

/// replay for engines whose cases can kill the process: first alone in a child
pub fn replay_isolated<E: Engine>(e: &E, doc: &Value, verif_dir: &str) -> i32 {
    let known = known::load(verif_dir);
    let case: E::Case = match serde_json::from_value(doc["case"].clone()) {
        Ok(c) => c,
        Err(err) => {
            eprintln!("HARNESS: replay file does not parse: {err}");
            return 2;
        }
    };
    let exe = std::env::current_exe().expect("current exe");
    if let Some(how) = dies_alone(e, &exe, &case) {
        let v = Violation {
            property: e.property().to_string(),
            class: "abort".to_string(),
            event: None,
            detail: format!("the worker process died while executing this case: {how} ;; {}", e.describe(&case)),
            focus: None,
        };
        return match known.matches(&v) {
            Some(id) => {
                println!("KNOWN-FINDING: property={} {} [{}]", v.property, v.detail, id);
                0
            }
            None => {
                println!("violation: class={} {}", v.class, v.detail);
                println!("VIOLATION property={} replay=<this file>", v.property);
                1
            }
        };
    }
    replay(e, doc, verif_dir)
}

pub fn replay<E: Engine>(e: &E, doc: &Value, verif_dir: &str) -> i32 {
    let known = known::load(verif_dir);
    let case: E::Case = match serde_json::from_value(doc["case"].clone()) {
        Ok(c) => c,
        Err(err) => {
            eprintln!("HARNESS: replay file does not parse: {err}");
            return 2;
        }
    };
    let r = safe_execute(e, &case);
    for h in &r.harness {
        eprintln!("HARNESS: {h}");
    }
    let mut code = 0;
    for v in &r.violations {
        if v.property != e.property() {
            continue;
        }
        match known.matches(v) {
            Some(id) => println!("KNOWN-FINDING: property={} {} [{}]", v.property, v.detail, id),
            None => {
                println!("violation: class={} event={:?} {}", v.class, v.event, v.detail);
                println!("VIOLATION property={} replay=<this file>", v.property);
                code = 1;
            }
        }
    }
    if code == 0 {
        println!("replay: no violation");
    }
    code
}
