//! C10: evaluation budgets under the virtual, work-driven clock. Programs of known shape,
//! limit triples at their boundaries, call histories (run / authorize / query / retry / clone /
//! snapshot-restore / idle), and a stall injected at every work-tick index of the history.
use crate::ast::*;
use crate::driver::{CaseResult, Engine};
use crate::libeval::{self, Limits, Outcome};
use crate::refdl;
use crate::rng::Rng;
use crate::world::{Stats, Violation};
use biscuit_auth::verif::{self, ClockScript};
use biscuit_auth::Authorizer as LibAuthorizer;
use serde::{Deserialize, Serialize};
use std::panic::{catch_unwind, AssertUnwindSafe};

#[derive(Clone, Debug, PartialEq, Eq, Serialize, Deserialize)]
pub enum Program {
    /// path(0); edge(i, i+1); path($b) <- path($a), edge($a, $b): n productive iterations
    Chain { n: usize },
    /// pair($a, $b) <- user($a), user($b): one iteration producing m*m facts
    Join { m: usize },
    /// trip($a,$b,$c) <- user($a), user($b), user($c): one expensive iteration
    Expensive { m: usize },
    /// many facts, no rule at all
    NoRules { f: usize },
    /// two independent chains and a join on their ends
    Mixed { n: usize, m: usize },
}

#[derive(Clone, Debug, PartialEq, Eq, Serialize, Deserialize)]
pub enum Call {
    Run,
    Authorize,
    Query,
    QueryAll,
    AuthorizeWithLimits(Limits),
    Clone,
    SnapshotRestore,
    Idle(u64),
}

#[derive(Clone, Debug, PartialEq, Eq, Serialize, Deserialize)]
pub enum Stall {
    None,
    At(u64, u64),
    /// one sub-run per work-tick index of the history, each with a stall of this many ns
    Every(u64),
}

#[derive(Clone, Debug, Serialize, Deserialize)]
pub struct BudgetCase {
    pub program: Program,
    pub limits: Limits,
    pub per_tick_ns: u64,
    pub stall: Stall,
    pub history: Vec<Call>,
    pub hash_key: u64,
    /// where the program's checks live: 0 in the authorizer, 1 in the authority block of a token,
    /// 2 in an attenuation block, 3 in a second attenuation block (those are evaluated after the
    /// policies, as the very last units of work of authorize)
    #[serde(default)]
    pub placement: u8,
    /// how the authorizer comes to exist: 0 built directly, 1 from a builder that was saved and
    /// restored first (the limits travel in the builder's snapshot), 2 built, saved before any
    /// evaluation and restored
    #[serde(default)]
    pub route: u8,
}

/// the authorizer without its checks, and the token that carries them instead
fn place(auth: &Authorizer, placement: u8) -> Result<(Authorizer, Option<biscuit_auth::Biscuit>), String> {
    if placement == 0 {
        return Ok((auth.clone(), None));
    }
    let mut rest = auth.clone();
    let checks = std::mem::take(&mut rest.checks);
    let with_checks = Block { checks, ..Default::default() };
    let empty = Block::default();
    let key = |seed: u64| crate::keys::KeySpec { alg: Alg::Ed25519, seed }.keypair();
    let bb = |b: &Block| b.to_builder().map_err(|e| format!("{e:?}"));
    let authority = if placement == 1 { &with_checks } else { &empty };
    let mut token = biscuit_auth::builder::BiscuitBuilder::new()
        .merge(bb(authority)?)
        .build_with_key_pair(&key(1), biscuit_auth::datalog::SymbolTable::new(), &key(2))
        .map_err(|e| format!("{e:?}"))?;
    if placement >= 2 {
        let first = if placement == 2 { &with_checks } else { &empty };
        token = token.append_with_keypair(&key(3), bb(first)?).map_err(|e| format!("{e:?}"))?;
    }
    if placement >= 3 {
        token = token.append_with_keypair(&key(4), bb(&with_checks)?).map_err(|e| format!("{e:?}"))?;
    }
    Ok((rest, Some(token)))
}

fn v(s: &str) -> Term {
    Term::Var(s.to_string())
}

pub fn program_ast(p: &Program) -> Authorizer {
    let mut a = Authorizer::default();
    let allow = Policy {
        kind: PolicyKind::Allow,
        queries: vec![Rule { head: query_head(), body: vec![], exprs: vec![Expr::val(Term::Bool(true))], scopes: vec![] }],
    };
    match p {
        Program::Chain { n } => {
            a.facts.push(Pred::new("path", vec![Term::Int(0)]));
            for i in 0..*n {
                a.facts.push(Pred::new("edge", vec![Term::Int(i as i64), Term::Int(i as i64 + 1)]));
            }
            a.rules.push(Rule {
                head: Pred::new("path", vec![v("b")]),
                body: vec![Pred::new("path", vec![v("a")]), Pred::new("edge", vec![v("a"), v("b")])],
                exprs: vec![],
                scopes: vec![],
            });
            a.checks.push(Check {
                kind: CheckKind::One,
                queries: vec![Rule { head: query_head(), body: vec![Pred::new("path", vec![Term::Int(*n as i64)])], exprs: vec![], scopes: vec![] }],
            });
        }
        Program::Join { m } => {
            for i in 0..*m {
                a.facts.push(Pred::new("user", vec![Term::Int(i as i64)]));
            }
            a.rules.push(Rule {
                head: Pred::new("pair", vec![v("a"), v("b")]),
                body: vec![Pred::new("user", vec![v("a")]), Pred::new("user", vec![v("b")])],
                exprs: vec![],
                scopes: vec![],
            });
            a.checks.push(Check {
                kind: CheckKind::One,
                queries: vec![Rule { head: query_head(), body: vec![Pred::new("pair", vec![Term::Int(0), v("b")])], exprs: vec![], scopes: vec![] }],
            });
        }
        Program::Expensive { m } => {
            for i in 0..*m {
                a.facts.push(Pred::new("user", vec![Term::Int(i as i64)]));
            }
            a.rules.push(Rule {
                head: Pred::new("trip", vec![v("a"), v("b"), v("c")]),
                body: vec![Pred::new("user", vec![v("a")]), Pred::new("user", vec![v("b")]), Pred::new("user", vec![v("c")])],
                exprs: vec![],
                scopes: vec![],
            });
        }
        Program::NoRules { f } => {
            for i in 0..*f {
                a.facts.push(Pred::new("user", vec![Term::Int(i as i64)]));
            }
            a.checks.push(Check {
                kind: CheckKind::One,
                queries: vec![Rule { head: query_head(), body: vec![Pred::new("user", vec![Term::Int(0)])], exprs: vec![], scopes: vec![] }],
            });
        }
        Program::Mixed { n, m } => {
            a.facts.push(Pred::new("path", vec![Term::Int(0)]));
            for i in 0..*n {
                a.facts.push(Pred::new("edge", vec![Term::Int(i as i64), Term::Int(i as i64 + 1)]));
            }
            for i in 0..*m {
                a.facts.push(Pred::new("user", vec![Term::Int(i as i64)]));
            }
            a.rules.push(Rule {
                head: Pred::new("path", vec![v("b")]),
                body: vec![Pred::new("path", vec![v("a")]), Pred::new("edge", vec![v("a"), v("b")])],
                exprs: vec![],
                scopes: vec![],
            });
            a.rules.push(Rule {
                head: Pred::new("ok", vec![v("u")]),
                body: vec![Pred::new("path", vec![v("u")]), Pred::new("user", vec![v("u")])],
                exprs: vec![],
                scopes: vec![],
            });
        }
    }
    a.policies.push(allow);
    a
}

fn data_query() -> Rule {
    Rule {
        head: Pred::new("q", vec![v("x")]),
        body: vec![Pred::new("user", vec![v("x")])],
        exprs: vec![],
        scopes: vec![],
    }
}

#[derive(Clone, Debug, PartialEq, Eq)]
pub struct Obs {
    pub call: String,
    pub result: String,
    pub iterations: u64,
    pub facts: usize,
    /// work time (virtual time minus idle time) before / after the call
    pub w_before: u64,
    pub w_after: u64,
    pub ticks_before: u64,
    pub ticks_after: u64,
    pub after_restore: bool,
}

fn result_class(o: &Outcome) -> String {
    match o {
        Outcome::D(refdl::Decision::Allowed(_)) => "ok".to_string(),
        Outcome::D(_) => "refused".to_string(),
        Outcome::RunLimit(l) => format!("runlimit:{l}"),
        Outcome::ExprError(e) => format!("exprerror:{e}"),
        Outcome::Other(e) => format!("other:{e}"),
    }
}

pub fn run_history(case: &BudgetCase, stall: Option<(u64, u64)>, with_idle: bool) -> Result<Vec<Obs>, String> {
    verif::set_hash_key(case.hash_key);
    verif::install_clock(ClockScript {
        per_tick_ns: case.per_tick_ns,
        stall_at: stall,
    });
    let auth = program_ast(&case.program);
    let (auth, token) = place(&auth, case.placement)?;
    let route = match case.route {
        1 => libeval::Route::BuilderSnapshot,
        2 => libeval::Route::SnapshotFresh,
        _ => libeval::Route::Direct,
    };
    let mut a: LibAuthorizer = libeval::build_via(route, token.as_ref(), &auth, case.limits)?;
    let mut idle_total = 0u64;
    let mut out = Vec::new();
    let mut after_restore = false;
    for call in &case.history {
        let t0 = verif::virtual_now_ns().unwrap_or(0);
        let k0 = verif::ticks();
        let name = format!("{call:?}");
        let result: String = match call {
            Call::Idle(ns) => {
                if with_idle {
                    verif::advance(*ns);
                    idle_total = idle_total.saturating_add(*ns);
                }
                continue;
            }
            Call::Clone => {
                a = a.clone();
                continue;
            }
            Call::SnapshotRestore => {
                let bytes = a.to_raw_snapshot().map_err(|e| format!("{e:?}"))?;
                // only durable state survives: the work-time account restarts from what the
                // snapshot records
                let durable = crate::wire::decode_snapshot(&bytes).map(|d| d.execution_time).unwrap_or(0);
                // what the authorizer itself says it has spent when it is saved
                let spent = a.execution_time().map(|d| d.as_nanos().min(u64::MAX as u128) as u64).unwrap_or(0);
                match LibAuthorizer::from_raw_snapshot(&bytes).map_err(|e| format!("{e:?}")) {
                    Ok(b) => {
                        a = b;
                        after_restore = true;
                        idle_total = verif::virtual_now_ns().unwrap_or(0).saturating_sub(durable);
                    }
                    Err(e) => return Err(format!("snapshot/restore failed: {e}")),
                }
                format!("saved recorded={durable} spent={spent}")
            }
            Call::Run => match catch_unwind(AssertUnwindSafe(|| a.run())) {
                Ok(Ok(_)) => "ok".to_string(),
                Ok(Err(e)) => result_class(&libeval::outcome_of(Err(e))),
                Err(_) => format!("panic at {}", crate::panic_location()),
            },
            Call::Authorize => match catch_unwind(AssertUnwindSafe(|| a.authorize())) {
                Ok(r) => result_class(&libeval::outcome_of(r)),
                Err(_) => format!("panic at {}", crate::panic_location()),
            },
            Call::AuthorizeWithLimits(l) => match catch_unwind(AssertUnwindSafe(|| a.authorize_with_limits(l.to_lib()))) {
                Ok(r) => result_class(&libeval::outcome_of(r)),
                Err(_) => format!("panic at {}", crate::panic_location()),
            },
            Call::Query | Call::QueryAll => {
                let all = matches!(call, Call::QueryAll);
                let q = data_query();
                match catch_unwind(AssertUnwindSafe(|| libeval::query(&mut a, &q, all))) {
                    Ok(Ok(_)) => "ok".to_string(),
                    Ok(Err(e)) => {
                        if e.contains("RunLimit") {
                            format!("runlimit:{}", e.replace("RunLimit(", "").replace(')', ""))
                        } else {
                            format!("other:{e}")
                        }
                    }
                    Err(_) => format!("panic at {}", crate::panic_location()),
                }
            }
        };
        let t1 = verif::virtual_now_ns().unwrap_or(0);
        out.push(Obs {
            call: name,
            result,
            iterations: a.iterations(),
            facts: a.fact_count(),
            w_before: t0 - idle_total,
            w_after: t1 - idle_total,
            ticks_before: k0,
            ticks_after: verif::ticks(),
            after_restore,
        });
    }
    Ok(out)
}

pub struct BudgetEngine;

impl BudgetEngine {
    fn check_obs(&self, case: &BudgetCase, obs: &[Obs], stall: Option<(u64, u64)>, n_rules: usize, counts: &[usize], f0: usize, out: &mut Vec<Violation>, stats: &mut Stats) {
        let l = case.limits;
        let ctx = |o: &Obs| {
            format!(
                "program {:?} (checks placement {}, route {}) limits (facts {}, iterations {}, time {} ns) {} ns per work tick, stall {:?}, history {:?}: call {} -> {} with iterations()={} fact_count()={} work time {} ns{}",
                case.program, case.placement, case.route, l.max_facts, l.max_iterations, l.max_time_ns, case.per_tick_ns, stall, case.history, o.call, o.result, o.iterations, o.facts, o.w_after,
                if o.after_restore { " (after snapshot-restore)" } else { "" }
            )
        };
        let mut push = |class: &str, detail: String| {
            out.push(Violation { property: "C10".to_string(), class: class.to_string(), event: None, detail, focus: None });
        };
        // the work tick at which the cumulative work time first reaches the time budget
        for o in obs {
            stats.oracle_evals += 1;
            stats.bump(&format!("c10.result.{}", o.result.split(' ').next().unwrap_or("")));
            if o.result.starts_with("panic") {
                push("panic", format!("{} ;; {}", o.result, ctx(o)));
                continue;
            }
            if o.call == "SnapshotRestore" {
                // durability of the account: the time a saved authorizer has spent is in the
                // snapshot, or the budget starts afresh in the process that restores it
                let num = |k: &str| o.result.split(k).nth(1).and_then(|x| x.split(' ').next()).and_then(|x| x.parse::<u64>().ok()).unwrap_or(0);
                let (recorded, spent) = (num("recorded="), num("spent="));
                if recorded != spent {
                    push("budget-forgotten-by-snapshot", format!("budget=time the snapshot records {recorded} ns, the authorizer had spent {spent} ns ;; {}", ctx(o)));
                }
                continue;
            }
            let with_limits = o.call.starts_with("AuthorizeWithLimits");
            let success = o.result == "ok";
            let is_run = o.call == "Run";
            if success {
                if o.iterations > l.max_iterations {
                    push("budget-exceeded-on-success", format!("budget=iterations {} > {} ;; {}", o.iterations, l.max_iterations, ctx(o)));
                }
                // independent of the library's own counter: the reference evaluator knows how many
                // productive iterations the program needs before its fixpoint
                let needed = counts.len() as u64;
                if needed > l.max_iterations && !with_limits {
                    push(
                        "budget-exceeded-on-success",
                        format!("budget=iterations-needed the program needs {} productive iterations, the budget is {} ;; {}", needed, l.max_iterations, ctx(o)),
                    );
                }
                if o.facts as u64 > l.max_facts {
                    push("budget-exceeded-on-success", format!("budget=facts {} > {} ;; {}", o.facts, l.max_facts, ctx(o)));
                }
                // authorize: every unit of its work is followed by a clock read, success means the
                // budget held to the end; query: one unit of work, the budget must hold at entry
                let is_query = o.call.starts_with("Query");
                let w = if is_query { o.w_before } else { o.w_after };
                if !is_run && !with_limits && w >= l.max_time_ns && w > 0 {
                    push("budget-exceeded-on-success", format!("budget=time work {} ns >= {} ns ;; {}", w, l.max_time_ns, ctx(o)));
                }
            }
            if o.result.starts_with("runlimit") {
                // promptness
                if o.result.contains("TooManyIterations") && o.iterations > l.max_iterations.max(1) {
                    push("not-prompt", format!("kind=iterations continued to {} iterations with a budget of {} ;; {}", o.iterations, l.max_iterations, ctx(o)));
                }
                // (a restored authorizer only knows its durable state and may need one more
                // iteration to notice that the fact budget is used up)
                if o.result.contains("TooManyFacts") && !o.after_restore {
                    // facts at the end of the iteration in which the budget was crossed
                    // the engine can only notice at an iteration boundary: when the budget is
                    // already crossed by the initial facts it may finish one iteration
                    let seq: Vec<usize> = std::iter::once(f0).chain(counts.iter().cloned()).collect();
                    let crossing = seq.iter().position(|c| *c as u64 >= l.max_facts).map(|i| {
                        if i == 0 {
                            *seq.get(1).unwrap_or(&seq[0])
                        } else {
                            seq[i]
                        }
                    });
                    if let Some(c) = crossing {
                        if o.facts > c {
                            push("not-prompt", format!("kind=facts continued to {} facts, the budget {} was crossed at {} ;; {}", o.facts, l.max_facts, c, ctx(o)));
                        }
                    }
                }
                if o.result.contains("Timeout") && case.per_tick_ns > 0 && !with_limits {
                    // ticks consumed in this call after the budget was crossed
                    let per = case.per_tick_ns;
                    let over = o.w_after.saturating_sub(l.max_time_ns.max(o.w_before));
                    let stall_ns = stall.map(|s| s.1).unwrap_or(0);
                    let over_ticks = over.saturating_sub(stall_ns) / per.max(1);
                    if over_ticks > (n_rules as u64).max(1) + 1 {
                        push("not-prompt", format!("kind=time {} work ticks after the time budget was crossed (one iteration is {} ticks) ;; {}", over_ticks, n_rules, ctx(o)));
                    }
                }
            }
        }
        // once a run-limit error was reported, later success needs the budget to still hold:
        // covered by the per-call clauses above since work time and iterations are cumulative
    }
}

impl Engine for BudgetEngine {
    type Case = BudgetCase;
    fn name(&self) -> &'static str {
        "budget"
    }
    fn property(&self) -> &str {
        "C10"
    }
    fn generate(&self, run_seed: u64) -> BudgetCase {
        let mut rng = Rng::derive(run_seed, "budget", 0);
        let program = match rng.below(6) {
            0 | 1 => Program::Chain { n: rng.range(1, 12) },
            2 => Program::Join { m: rng.range(1, 8) },
            3 => Program::Expensive { m: rng.range(1, 5) },
            4 => Program::NoRules { f: rng.range(1, 30) },
            _ => Program::Mixed { n: rng.range(1, 8), m: rng.range(1, 8) },
        };
        let auth = program_ast(&program);
        let ext = refdl::ExternTable::new();
        let mut w = refdl::World::new(&[], &auth, &ext);
        let f0 = w.facts.len() as u64;
        w.run(10_000);
        let k = w.iterations;
        let f_last = w.facts.len() as u64;
        let f_mid = w.fact_counts.first().cloned().unwrap_or(f_last as usize) as u64;
        // from a clock too coarse to see the work to one that needs seconds per unit of work
        let per_tick_ns = *rng.pick(&[0u64, 1, 1000, 1_000_000, 1_000_000, 1_000_000_000, 1_500_000_000]);
        let n_rules = auth.rules.len() as u64;
        let ticks_est = n_rules * (k + 1) + 3;
        let big = u64::MAX;
        let t_est = ticks_est * per_tick_ns.max(1);
        let binding = rng.below(5);
        let pick_around = |rng: &mut Rng, x: u64| -> u64 { *rng.pick(&[x.saturating_sub(1), x, x.saturating_add(1)]) };
        let mut limits = Limits { max_facts: 1_000_000, max_iterations: 100_000, max_time_ns: 3_600_000_000_000 };
        match binding {
            0 => limits.max_iterations = *rng.pick(&[0, 1, k.saturating_sub(1), k, k + 1, big]),
            1 => {
                let base = *rng.pick(&[f0, f_mid, f_last]);
                let around = pick_around(&mut rng, base);
                limits.max_facts = *rng.pick(&[0, 1, around, big]);
            }
            2 => limits.max_time_ns = *rng.pick(&[0, 1, t_est / 2, t_est.saturating_sub(per_tick_ns), t_est, t_est + per_tick_ns, big]),
            3 => {
                limits.max_iterations = pick_around(&mut rng, k);
                limits.max_time_ns = pick_around(&mut rng, t_est);
                limits.max_facts = pick_around(&mut rng, f_last);
            }
            _ => {
                limits = Limits { max_facts: big, max_iterations: big, max_time_ns: big };
            }
        }
        let n_calls = rng.range(1, 5);
        let mut history = Vec::new();
        for _ in 0..n_calls {
            history.push(match rng.weighted(&[25, 35, 10, 8, 6, 5, 6, 8]) {
                0 => Call::Run,
                1 => Call::Authorize,
                2 => Call::Query,
                3 => Call::QueryAll,
                4 => Call::AuthorizeWithLimits(Limits {
                    max_facts: *rng.pick(&[f_last, big, 1]),
                    max_iterations: *rng.pick(&[k, big, 1]),
                    max_time_ns: *rng.pick(&[t_est, 3_600_000_000_000, 1]),
                }),
                5 => Call::Clone,
                6 => Call::SnapshotRestore,
                _ => Call::Idle(*rng.pick(&[1, 1_000_000, 10_000_000_000])),
            });
        }
        if !history.iter().any(|c| matches!(c, Call::Authorize | Call::Query | Call::QueryAll | Call::Run)) {
            history.push(Call::Authorize);
        }
        let stall = match rng.below(4) {
            0 => Stall::None,
            // stalls stay far below u64::MAX so that the virtual clock never saturates
            _ => Stall::Every((*rng.pick(&[limits.max_time_ns, limits.max_time_ns.saturating_add(1), 1_000_000_000, 1])).min(1 << 62)),
        };
        BudgetCase {
            program,
            limits,
            per_tick_ns,
            stall,
            history,
            hash_key: rng.next() >> 8,
            placement: *rng.pick(&[0u8, 0, 0, 1, 2, 2, 3]),
            route: *rng.pick(&[0u8, 0, 0, 1, 1, 2]),
        }
    }

    fn execute(&self, case: &BudgetCase) -> CaseResult {
        let mut res = CaseResult::default();
        let mut stats = Stats::default();
        let auth = program_ast(&case.program);
        let ext = refdl::ExternTable::new();
        let mut w = refdl::World::new(&[], &auth, &ext);
        let f0 = w.facts.len();
        w.run(10_000);
        let counts = w.fact_counts.clone();
        let n_rules = auth.rules.len();
        stats.trace.push(format!("{:?} checks-placement={} route={}", case.program, case.placement, case.route));
        stats.bump(&format!("c10.placement.{}", case.placement));
        stats.trace.push(format!("{:?}", case.history));

        let stalls: Vec<Option<(u64, u64)>> = match &case.stall {
            Stall::None => vec![None],
            Stall::At(j, ns) => vec![Some((*j, *ns))],
            Stall::Every(ns) => {
                // dry run without stall counts the work ticks of the history
                let n = match run_history(case, None, true) {
                    Ok(obs) => obs.last().map(|o| o.ticks_after).unwrap_or(0),
                    Err(e) => {
                        res.harness.push(format!("budget dry run: {e}"));
                        0
                    }
                };
                let mut v = vec![None];
                for j in 0..n.min(64) {
                    v.push(Some((j, *ns)));
                }
                v
            }
        };
        for stall in stalls {
            if stall.is_some() {
                stats.bump("fault.clock_stall");
            }
            let obs = match run_history(case, stall, true) {
                Ok(o) => o,
                Err(e) => {
                    res.harness.push(format!("budget run: {e}"));
                    continue;
                }
            };
            libeval::digest_mix(format!("{obs:?}").as_bytes());
            stats.add("sim.time_ns", obs.last().map(|o| o.w_after.min(1 << 50)).unwrap_or(0));
            let before = res.violations.len();
            self.check_obs(case, &obs, stall, n_rules, &counts, f0, &mut res.violations, &mut stats);
            if res.violations.len() > before {
                if let Some((j, ns)) = stall {
                    stats.counters.insert("c10.failing_stall_tick".to_string(), j);
                    stats.counters.insert("c10.failing_stall_ns".to_string(), ns);
                }
                break;
            }
            // O4: idle time between calls changes nothing
            if case.history.iter().any(|c| matches!(c, Call::Idle(_))) {
                stats.bump("fault.clock_idle_jump");
                if let Ok(no_idle) = run_history(case, stall, false) {
                    stats.oracle_evals += 1;
                    let a: Vec<&String> = obs.iter().map(|o| &o.result).collect();
                    let b: Vec<&String> = no_idle.iter().map(|o| &o.result).collect();
                    if a != b {
                        res.violations.push(Violation {
                            property: "C10".to_string(),
                            class: "idle-time-counted".to_string(),
                            event: None,
                            detail: format!("program {:?} limits {:?} history {:?} stall {:?}: results with idle time {:?}, without {:?}", case.program, case.limits, case.history, stall, a, b),
                            focus: None,
                        });
                        break;
                    }
                }
            }
            // O5: frozen clock and unlimited budgets never hit a limit
            if case.per_tick_ns == 0 && stall.is_none() && case.limits.max_facts == u64::MAX && case.limits.max_iterations == u64::MAX && case.limits.max_time_ns == u64::MAX {
                stats.bump("c10.unlimited_frozen");
                for o in &obs {
                    stats.oracle_evals += 1;
                    if o.result.starts_with("runlimit") && !o.call.starts_with("AuthorizeWithLimits") {
                        res.violations.push(Violation {
                            property: "C10".to_string(),
                            class: "limit-without-budget".to_string(),
                            event: None,
                            detail: format!("program {:?} history {:?}: {} -> {} under a frozen clock and u64::MAX budgets", case.program, case.history, o.call, o.result),
                            focus: None,
                        });
                    }
                }
            }
        }
        res.stats = stats;
        res
    }

    fn shrink(&self, case: &BudgetCase) -> Vec<BudgetCase> {
        let mut out = Vec::new();
        // pin the failing stall
        if let Stall::Every(_) = case.stall {
            let r = self.execute(case);
            if let (Some(j), Some(ns)) = (r.stats.counters.get("c10.failing_stall_tick"), r.stats.counters.get("c10.failing_stall_ns")) {
                let mut c = case.clone();
                c.stall = Stall::At(*j, *ns);
                out.push(c);
            } else {
                let mut c = case.clone();
                c.stall = Stall::None;
                out.push(c);
            }
        }
        for i in 0..case.history.len() {
            if case.history.len() > 1 {
                let mut c = case.clone();
                c.history.remove(i);
                out.push(c);
            }
        }
        let smaller = match &case.program {
            Program::Chain { n } if *n > 1 => Some(Program::Chain { n: n - 1 }),
            Program::Join { m } if *m > 1 => Some(Program::Join { m: m - 1 }),
            Program::Expensive { m } if *m > 1 => Some(Program::Expensive { m: m - 1 }),
            Program::NoRules { f } if *f > 1 => Some(Program::NoRules { f: f - 1 }),
            Program::Mixed { n, m } if *n > 1 => Some(Program::Mixed { n: n - 1, m: *m }),
            Program::Mixed { n, m } if *m > 1 => Some(Program::Mixed { n: *n, m: m - 1 }),
            _ => None,
        };
        if let Some(p) = smaller {
            let mut c = case.clone();
            c.program = p;
            out.push(c);
        }
        if case.per_tick_ns > 1 {
            let mut c = case.clone();
            c.per_tick_ns = 1;
            out.push(c);
        }
        out
    }

    fn reach_probes(&self) -> Vec<&'static str> {
        vec![
            "fault.clock_stall",
            "fault.clock_idle_jump",
            "c10.unlimited_frozen",
            "c10.result.ok",
            "c10.result.runlimit:TooManyFacts",
            "c10.result.runlimit:TooManyIterations",
            "c10.result.runlimit:Timeout",
        ]
    }
    fn level(&self) -> &'static str {
        "fault_enumeration"
    }
    fn rule(&self) -> String {
        "one run = one program of known shape (chain, quadratic join, cubic join, facts without rules, mixed) x one limit triple taken at the boundaries of what the reference evaluator says the program needs (iterations K-1/K/K+1, facts F-1/F/F+1, time around ticks x per-tick cost, 0, 1, u64::MAX) x one call history of 1..5 calls (run, authorize, query, query_all, authorize_with_limits, clone, snapshot-restore, idle) under a virtual clock that advances only at work ticks; with `Every`, the history is re-run once per work-tick index with a stall injected at that tick (complete enumeration up to 64 ticks); non-trivial = at least one call observed; distinct = distinct (program, history)".to_string()
    }
    fn assumptions(&self) -> Vec<String> {
        vec![
            "time is virtual: measured in work ticks (one rule application, one check / policy / query evaluation) through hooks H2+H4; nothing is said about wall-clock promptness".to_string(),
            "the time clause of the success oracle is applied to authorize / query calls, not to run() whose last, non-productive iteration is not followed by a clock read".to_string(),
            "reference evaluator R2 gives the iteration and fact counts the programs need (R5)".to_string(),
        ]
    }
    fn components_real(&self) -> Vec<&'static str> {
        vec!["biscuit-auth datalog engine (run_with_limits)", "biscuit-auth authorizer (run, authorize, query*, limits arithmetic, snapshot)", "biscuit-auth time::Instant (through the virtual clock)"]
    }
    fn panic_is_violation(&self) -> Option<(&'static str, &'static str)> {
        Some(("C10", "panic"))
    }
}
