//! The adversary's systematic sweep: the complete structured fault table applied to copies of
//! tokens that exist at the end of a run, delivered to the three decode paths, with the ghost
//! registry as oracle (C01, C08's mutation clause, C15's non-malleability clause).
use crate::faults::{self, FaultOp};
use crate::keys::KeySpec;
use crate::ast::Alg;
use crate::refchain::{self, Content};
use crate::world::{Focus, Run, Violation};
use biscuit_auth::{Biscuit, UnverifiedBiscuit};

fn b64(v: &[u8]) -> String {
    base64::encode_config(v, base64::URL_SAFE)
}

fn uses_aux(op: &FaultOp) -> bool {
    matches!(
        op,
        FaultOp::PayloadFromAux { .. }
            | FaultOp::BlockDropProofAux { .. }
            | FaultOp::BlockInsertAux { .. }
            | FaultOp::BlockAppendAux { .. }
            | FaultOp::AuthorityFromAux
            | FaultOp::ExtAddAux { .. }
            | FaultOp::ProofFromAux
    )
}

impl<'a> Run<'a> {
    fn event_of_slot(&self, slot: usize) -> usize {
        self.slots[slot].created_at
    }

    pub fn fault_sweep(&mut self) {
        if self.slots.is_empty() {
            return;
        }
        if let Some(f) = self.scn.focus.clone() {
            let v = match self.slot_of_event.get(&f.victim) {
                Some(v) => *v,
                None => return,
            };
            let a = match f.aux {
                Some(e) => match self.slot_of_event.get(&e) {
                    Some(a) => Some(*a),
                    None => return,
                },
                None => None,
            };
            self.deliver_faulted(v, a, &f.op);
            return;
        }
        // victims: the longest token and the most recent one (sealed ones only for C08 alone)
        let only_sealed = self.mon.c08 && !self.mon.c01 && !self.mon.c15;
        let candidates: Vec<usize> = (0..self.slots.len())
            .filter(|s| !only_sealed || self.slots[*s].sealed)
            .collect();
        if candidates.is_empty() {
            return;
        }
        let longest = *candidates
            .iter()
            .max_by_key(|s| (self.slots[**s].ghost.len(), **s))
            .unwrap();
        let last = *candidates.last().unwrap();
        let mut victims = vec![longest];
        if last != longest {
            victims.push(last);
        }
        // a sealed victim whenever there is one
        if let Some(s) = candidates.iter().rev().find(|s| self.slots[**s].sealed) {
            if !victims.contains(s) {
                victims.push(*s);
            }
        }
        for v in victims {
            self.wrong_roots(v);
            let n = self.slots[v].ghost.len();
            let len = self.slots[v].bytes.len();
            let seed = crate::rng::mix(self.scn.hash_key, v as u64);
            let only_sig = self.mon.c15 && !self.mon.c01 && !self.mon.c08;
            // C07 alone: what can be done to the third-party blocks of the token, and third-party
            // blocks forged onto it
            let only_tp = self.mon.c07 && !self.mon.c01 && !self.mon.c15 && !self.mon.c08;
            for op in faults::table(n, None, len, seed, 10) {
                if only_sig && !op.signature_level() {
                    continue;
                }
                if only_tp && !op.third_party_level() {
                    continue;
                }
                self.deliver_faulted(v, None, &op);
            }
            if only_sig {
                continue;
            }
            // splices: the parent (shares a prefix), a sibling and an unrelated token
            let mut auxes: Vec<usize> = Vec::new();
            if let Some(p) = self.slots[v].parent {
                auxes.push(p);
            }
            if let Some(c) = (0..self.slots.len()).find(|s| self.slots[*s].parent == Some(v)) {
                auxes.push(c);
            }
            if let Some(o) = (0..self.slots.len())
                .rev()
                .find(|s| *s != v && !auxes.contains(s) && self.slots[*s].bytes != self.slots[v].bytes)
            {
                auxes.push(o);
            }
            for a in auxes {
                let m = self.slots[a].ghost.len();
                for op in faults::table(n, Some(m), len, seed, 0) {
                    if only_tp && !op.third_party_level() {
                        continue;
                    }
                    if uses_aux(&op) {
                        self.deliver_faulted(v, Some(a), &op);
                    }
                }
            }
        }
    }

    fn wrong_roots(&mut self, v: usize) {
        let issuer = self.slots[v].issuer;
        let bytes = self.slots[v].bytes.clone();
        let mut others: Vec<biscuit_auth::PublicKey> = Vec::new();
        for (i, spec) in self.scn.issuers.iter().enumerate() {
            if i != issuer && spec.key != self.scn.issuers[issuer].key {
                others.push(spec.key.keypair().public());
            }
        }
        let seed = crate::rng::mix(self.scn.hash_key, 77);
        others.push(KeySpec { alg: Alg::Ed25519, seed }.keypair().public());
        others.push(KeySpec { alg: Alg::P256, seed }.keypair().public());
        // the keys inside the token are not the root key either
        if let Ok((_, c)) = refchain::content_of(&bytes) {
            for b in &c.blocks {
                let alg = match b.next_key.alg {
                    Alg::Ed25519 => biscuit_auth::builder::Algorithm::Ed25519,
                    Alg::P256 => biscuit_auth::builder::Algorithm::Secp256r1,
                };
                if let Ok(k) = biscuit_auth::PublicKey::from_bytes(&b.next_key.bytes, alg) {
                    others.push(k);
                }
            }
        }
        for k in others {
            self.stats.oracle_evals += 1;
            self.stats.bump("fault.wrong_root");
            let accepted = Biscuit::from(&bytes, k).is_ok()
                || UnverifiedBiscuit::from(&bytes)
                    .map(|u| u.verify(k).is_ok())
                    .unwrap_or(false);
            if accepted {
                let ev = self.event_of_slot(v);
                for p in self.sweep_properties(v) {
                    if p != "C01" {
                        continue;
                    }
                    self.violations.push(Violation {
                        property: p.to_string(),
                        class: "accepted-under-wrong-root".to_string(),
                        event: Some(ev),
                        detail: format!("token of slot {v} verifies under root key {}", k.to_bytes_hex()),
                        focus: None,
                    });
                }
            }
        }
    }

    fn sweep_properties(&self, victim: usize) -> Vec<&'static str> {
        let mut v = Vec::new();
        if self.mon.c01 {
            v.push("C01");
        }
        if self.mon.c15 {
            v.push("C15");
        }
        if self.mon.c08 && self.slots[victim].sealed {
            v.push("C08");
        }
        if self.mon.c07 {
            v.push("C07");
        }
        v
    }

    fn position_of(&self, op: &FaultOp, victim: usize, content: Option<&Content>) -> String {
        let n = self.slots[victim].ghost.len();
        let sealed = self.slots[victim].sealed;
        let alg_of = |i: usize| -> String {
            // the key that made signature i
            let spec = if i == 0 {
                self.scn.issuers[self.slots[victim].issuer].key
            } else {
                self.slots[victim].ghost[i - 1].next
            };
            format!("{:?}", spec.alg)
        };
        let _ = content;
        match op {
            FaultOp::SigTwin { i } => {
                let pos = if *i + 1 == n && !sealed {
                    "unchained-last-signature"
                } else if *i + 1 == n {
                    "last-signature-under-seal"
                } else {
                    "chained"
                };
                format!("position={pos} algorithm={}", alg_of(*i))
            }
            FaultOp::SealTwin => format!("position=seal algorithm={}", alg_of(n)),
            _ => "position=n/a".to_string(),
        }
    }

    pub fn deliver_faulted(&mut self, victim: usize, aux: Option<usize>, op: &FaultOp) {
        let vbytes = self.slots[victim].bytes.clone();
        let abytes = aux.map(|a| self.slots[a].bytes.clone());
        let m = match faults::apply(op, &vbytes, abytes.as_deref()) {
            Some(m) => m,
            None => return,
        };
        let kind = op.kind();
        if m == vbytes {
            self.stats.bump("fault.noop");
            return;
        }
        self.stats.bump(&format!("fault.{kind}"));
        let issuer = self.slots[victim].issuer;
        let root = self.scn.issuers[issuer].key.keypair().public();
        let r1 = Biscuit::from(&m, root);
        let r2 = Biscuit::from_base64(b64(&m), root);
        let r3 = UnverifiedBiscuit::from(&m)
            .map_err(|e| format!("{e:?}"))
            .and_then(|u| u.verify(root).map_err(|e| format!("{e:?}")));
        let props = self.sweep_properties(victim);
        self.stats.oracle_evals += 1;
        let focus = Focus {
            victim: self.event_of_slot(victim),
            aux: aux.map(|a| self.event_of_slot(a)),
            op: op.clone(),
        };
        let ev = self.event_of_slot(victim);
        let report = |run: &mut Run, class: &str, detail: String, only: Option<&str>| {
            for p in &props {
                if let Some(o) = only {
                    // (a C07 run only delivers third-party faults: what C01 would be told about
                    // them is what C07 is told)
                    if *p != o && !(*p == "C07" && o == "C01") {
                        continue;
                    }
                }
                run.violations.push(Violation {
                    property: p.to_string(),
                    class: class.to_string(),
                    event: Some(ev),
                    detail: detail.clone(),
                    focus: Some(focus.clone()),
                });
            }
        };
        // the lenient parser for the deprecated third-party format, followed by the ordinary
        // verify(): what is accepted is a verified token like any other
        let r4 = UnverifiedBiscuit::unsafe_deprecated_deserialize(&m)
            .map_err(|e| format!("{e:?}"))
            .and_then(|u| u.verify(root).map_err(|e| format!("{e:?}")));
        let flags = (r1.is_ok(), r2.is_ok(), r3.is_ok(), r4.is_ok());
        // the deprecated path may accept a third-party block with signature version 0 that the
        // strict parser refuses, but only one whose external signature is bound to the previous
        // block's signature (R1, lenient mode); it never refuses what the strict paths accept
        let r4_explained = if flags.3 && !flags.0 {
            let rroot = self.scn.issuers[issuer].key.rkey();
            self.stats.bump("sweep.deprecated_path_accepts_more");
            match refchain::verify_bound_lenient(&m, &rroot) {
                Ok(_) => true,
                Err(e) => {
                    report(
                        self,
                        "accepted-but-reference-rejects",
                        format!(
                            "op={kind} {:?} on slot {victim}: UnverifiedBiscuit::unsafe_deprecated_deserialize followed by verify() accepts a token in which a signature is not bound to the chain: {e}",
                            op
                        ),
                        None,
                    );
                    true
                }
            }
        } else {
            false
        };
        if !(flags.0 == flags.1 && flags.1 == flags.2 && (flags.2 == flags.3 || r4_explained)) {
            report(
                self,
                "decode-paths-disagree",
                format!(
                    "op={kind} {:?} on slot {victim}: from={} from_base64={} unverified+verify={} unsafe_deprecated_deserialize+verify={}",
                    op, flags.0, flags.1, flags.2, flags.3
                ),
                Some("C01"),
            );
        }
        let accepted = match r1 {
            Ok(b) => b,
            Err(_) => {
                self.stats.bump(&format!("rejected.{kind}"));
                self.stats.trace.push(format!("f:{kind}:rej"));
                return;
            }
        };
        self.stats.bump(&format!("accepted.{kind}"));
        self.stats.trace.push(format!("f:{kind}:acc"));
        let content = match refchain::content_of(&m) {
            Ok((_, c)) => c,
            Err(e) => {
                report(
                    self,
                    "accepted-but-reference-rejects",
                    format!("op={kind} {:?} on slot {victim}: accepted, the reference decoder says {e}", op),
                    Some("C01"),
                );
                // (C08: a sealed token altered into something the reference cannot even read,
                // and accepted)
                report(
                    self,
                    "sealed-token-altered",
                    format!("op={kind} {:?} applied to the sealed token of slot {victim} is accepted under the issuing root key; the reference decoder refuses the altered message: {e}", op),
                    Some("C08"),
                );
                return;
            }
        };
        let in_registry = self.registry.contains(&(issuer, content.clone()));
        if !in_registry {
            let pos = self.position_of(op, victim, Some(&content));
            let victim_content = refchain::content_of(&vbytes).ok().map(|(_, c)| c);
            let same_blocks_other_ids = victim_content
                .as_ref()
                .map(|vc| {
                    vc.blocks.len() == content.blocks.len()
                        && vc
                            .blocks
                            .iter()
                            .zip(content.blocks.iter())
                            .all(|(a, b)| a.payload == b.payload && a.next_key == b.next_key)
                        && vc
                            .blocks
                            .iter()
                            .zip(content.blocks.iter())
                            .any(|(a, b)| a.signature != b.signature)
                })
                .unwrap_or(false);
            let detail = format!(
                "op={kind} {pos} {:?} applied to the token of slot {victim} (aux {:?}) is accepted under the issuing root key although no legitimate operation produced that signed content",
                op, aux
            );
            report(self, "accepted-variant-differs", detail.clone(), Some("C01"));
            if same_blocks_other_ids {
                report(
                    self,
                    "revocation-id-malleable",
                    format!("{detail}; identifiers presented: {:?}", accepted.revocation_identifiers().iter().map(hex::encode).collect::<Vec<_>>()),
                    Some("C15"),
                );
            }
            // C08 speaks about blocks being added, removed or altered
            let blocks_differ = victim_content
                .as_ref()
                .map(|vc| vc.blocks != content.blocks)
                .unwrap_or(true);
            if blocks_differ {
                report(self, "sealed-token-altered", detail, Some("C08"));
            }
            return;
        }
        self.stats.bump(&format!("accepted_legit.{kind}"));
        // accepted and legitimate: the reference verifier must agree and accessors must show
        // the registered content
        let rroot = self.scn.issuers[issuer].key.rkey();
        if let Err(e) = refchain::verify(&m, &rroot) {
            report(
                self,
                "accepted-but-reference-rejects",
                format!("op={kind} {:?} on slot {victim}: accepted, reference verifier says {e}", op),
                Some("C01"),
            );
        }
        let ids = accepted.revocation_identifiers();
        let want: Vec<Vec<u8>> = content.blocks.iter().map(|b| b.signature.clone()).collect();
        if ids != want {
            report(
                self,
                "revocation-id-changed",
                format!("op={kind} {:?} on slot {victim}: accepted variant presents other identifiers", op),
                Some("C15"),
            );
        }
    }
}
