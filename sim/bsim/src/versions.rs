//! R4 — reference feature table: the lowest Datalog version that contains every feature of a
//! block, and the signature version a block must carry. Written from the version constants'
//! documentation (3.1: scopes, check all, strict !==, bitwise; 3.2: third-party blocks;
//! 3.3: reject if, closures, array/map, null, .type(), heterogeneous ==/!=, lazy && / ||,
//! .all/.any/.get, extern functions).
use crate::ast::*;

#[derive(Clone, Copy, Debug, Default, PartialEq, Eq)]
pub struct Features {
    pub v31: bool,
    pub v33: bool,
}

fn term_v33(t: &Term) -> bool {
    match t {
        Term::Null | Term::Array(_) | Term::Map(_) => true,
        Term::Set(s) => s.iter().any(term_v33),
        _ => false,
    }
}

fn expr_features(e: &Expr, f: &mut Features) {
    match e {
        Expr::Value(t) => {
            if term_v33(t) {
                f.v33 = true;
            }
        }
        Expr::Unary(op, x) => {
            if matches!(op, UnOp::TypeOf | UnOp::Ffi(_)) {
                f.v33 = true;
            }
            expr_features(x, f);
        }
        Expr::Binary(op, l, r) => {
            match op {
                BinOp::Ne | BinOp::BitAnd | BinOp::BitOr | BinOp::BitXor => f.v31 = true,
                BinOp::HEq
                | BinOp::HNe
                | BinOp::LazyAnd
                | BinOp::LazyOr
                | BinOp::All
                | BinOp::Any
                | BinOp::Get
                | BinOp::Ffi(_) => f.v33 = true,
                _ => {}
            }
            expr_features(l, f);
            expr_features(r, f);
        }
        Expr::Closure(_, body) => {
            f.v33 = true;
            expr_features(body, f);
        }
    }
}

fn rule_features(r: &Rule, f: &mut Features) {
    if !r.scopes.is_empty() {
        f.v31 = true;
    }
    for t in r.head.terms.iter().chain(r.body.iter().flat_map(|p| p.terms.iter())) {
        if term_v33(t) {
            f.v33 = true;
        }
    }
    for e in &r.exprs {
        expr_features(e, f);
    }
}

pub fn features(b: &Block) -> Features {
    let mut f = Features::default();
    if !b.scopes.is_empty() {
        f.v31 = true;
    }
    for p in &b.facts {
        if p.terms.iter().any(term_v33) {
            f.v33 = true;
        }
    }
    for r in &b.rules {
        rule_features(r, &mut f);
    }
    for c in &b.checks {
        match c.kind {
            CheckKind::One => {}
            CheckKind::All => f.v31 = true,
            CheckKind::Reject => f.v33 = true,
        }
        for q in &c.queries {
            rule_features(q, &mut f);
        }
    }
    f
}

/// lowest declared version a builder must emit for this block
pub fn min_version(b: &Block, third_party: bool) -> u32 {
    let f = features(b);
    let v = if f.v33 {
        6
    } else if f.v31 {
        4
    } else {
        3
    };
    if third_party {
        v.max(5)
    } else {
        v
    }
}

/// signature version of a block given its signing key, next key, kind and the versions before it
pub fn signature_version(
    third_party: bool,
    block_version: u32,
    signer_alg: Alg,
    next_alg: Alg,
    previous: &[u32],
) -> u32 {
    if third_party
        || block_version >= 6
        || signer_alg != Alg::Ed25519
        || next_alg != Alg::Ed25519
        || previous.iter().any(|v| *v >= 1)
    {
        1
    } else {
        0
    }
}
