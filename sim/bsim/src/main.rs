pub mod ast;
pub mod budget;
pub mod c09;
pub mod c16;
pub mod c12;
pub mod capi;
pub mod corpus;
pub mod dlengine;
pub mod driver;
pub mod faults;
pub mod gen;
pub mod keys;
pub mod known;
pub mod libeval;
pub mod miniregex;
pub mod refchain;
pub mod refdl;
pub mod rng;
pub mod validate;
pub mod sweep;
pub mod verifier;
pub mod versions;
pub mod wire;
pub mod world;
pub mod worldengine;

use std::cell::RefCell;

thread_local! {
    static LAST_PANIC: RefCell<String> = RefCell::new(String::new());
}

pub fn panic_location() -> String {
    LAST_PANIC.with(|l| l.borrow().clone())
}

fn arg(args: &[String], name: &str) -> Option<String> {
    args.iter()
        .position(|a| a == name)
        .and_then(|i| args.get(i + 1).cloned())
}

fn main() {
    std::panic::set_hook(Box::new(|info| {
        let loc = info
            .location()
            .map(|l| format!("{}:{}", l.file(), l.line()))
            .unwrap_or_default();
        if std::env::var("BSIM_DEBUG").is_ok() {
            eprintln!("panic: {info}");
        }
        LAST_PANIC.with(|l| *l.borrow_mut() = loc);
    }));
    let args: Vec<String> = std::env::args().collect();
    let verif_dir = std::env::var("VERIF_DIR").unwrap_or_else(|_| "/verif".to_string());
    let cmd = args.get(1).cloned().unwrap_or_default();
    if cmd == "worker" || cmd == "exec-case" {
        // a worker may be killed by the case it executes: no core files
        unsafe {
            let lim = libc::rlimit { rlim_cur: 0, rlim_max: 0 };
            libc::setrlimit(libc::RLIMIT_CORE, &lim);
        }
    }
    let code = match cmd.as_str() {
        "check" => {
            let property = arg(&args, "--property").expect("--property");
            let tier = arg(&args, "--tier").unwrap_or_else(|| "quick".to_string());
            let seed = arg(&args, "--seed")
                .or_else(|| std::env::var("VERIF_SEED").ok())
                .and_then(|s| s.parse::<u64>().ok())
                .unwrap_or(driver::DEFAULT_SEED);
            let threads = arg(&args, "--threads")
                .and_then(|s| s.parse().ok())
                .unwrap_or(16usize);
            let runs = arg(&args, "--runs").and_then(|s| s.parse::<usize>().ok());
            check(&property, &tier, seed, threads, runs, &verif_dir)
        }
        "validate-models" => validate::validate(&std::env::var("REPO_DIR").unwrap_or_else(|_| "/repo".to_string())),
        "worker" => {
            // child side of process isolation (see driver::run_isolated)
            let property = arg(&args, "--property").expect("--property");
            let seed = arg(&args, "--seed").and_then(|s| s.parse::<u64>().ok()).unwrap_or(driver::DEFAULT_SEED);
            let runs = arg(&args, "--runs").and_then(|s| s.parse::<usize>().ok()).unwrap_or(0);
            let stride = arg(&args, "--stride").and_then(|s| s.parse::<usize>().ok()).unwrap_or(1);
            let offset = arg(&args, "--offset").and_then(|s| s.parse::<usize>().ok()).unwrap_or(0);
            let after = arg(&args, "--after").and_then(|s| s.parse::<i64>().ok()).unwrap_or(-1);
            match property.as_str() {
                "C09" => driver::worker_loop(&c09::C09Engine, seed, runs, stride, offset, after),
                "C19" => driver::worker_loop(&capi::CapiEngine, seed, runs, stride, offset, after),
                _ => {}
            }
            0
        }
        "digest" => {
            // one line per run: run seed and digest of everything that happened in it
            let property = arg(&args, "--property").expect("--property");
            let seed = arg(&args, "--seed").and_then(|s| s.parse::<u64>().ok()).unwrap_or(driver::DEFAULT_SEED);
            let threads = arg(&args, "--threads").and_then(|s| s.parse().ok()).unwrap_or(16usize);
            let runs = arg(&args, "--runs").and_then(|s| s.parse::<usize>().ok()).unwrap_or(500);
            for (s, d) in digests(&property, seed, runs, threads) {
                println!("{property} {s} {d:016x}");
            }
            0
        }
        "determinism" => {
            // in-process part of the determinism proof: every engine, twice, at 1 and 16 workers
            let runs = arg(&args, "--runs").and_then(|s| s.parse::<usize>().ok()).unwrap_or(300);
            let seed = arg(&args, "--seed").and_then(|s| s.parse::<u64>().ok()).unwrap_or(driver::DEFAULT_SEED);
            let mut bad = 0;
            for p in ALL_PROPERTIES {
                let a = digests(p, seed, runs, 16);
                let b = digests(p, seed, runs, 1);
                let c = digests(p, seed, runs, 5);
                let diff = a.iter().zip(b.iter()).zip(c.iter()).filter(|((x, y), z)| x != y || y != z).count();
                println!("determinism: property={p} runs={runs} x3 (16, 1 and 5 workers) differing={diff}");
                bad += diff;
            }
            if bad > 0 {
                eprintln!("HARNESS: the simulator is not deterministic: {bad} runs differ");
                2
            } else {
                0
            }
        }
        "replay" => {
            let path = args.get(2).expect("replay <file>");
            replay(path, &verif_dir, true)
        }
        "exec-case" => {
            // executes one case file in this very process (the supervisor watches from outside)
            let path = args.get(2).expect("exec-case <file>");
            replay(path, &verif_dir, false)
        }
        _ => {
            eprintln!("usage: bsim check --property <id> --tier quick|thorough [--seed n] [--runs n] [--threads n] | replay <file>");
            2
        }
    };
    std::process::exit(code);
}

const ALL_PROPERTIES: &[&str] = &["C01", "C02", "C03", "C04", "C05", "C07", "C08", "C09", "C10", "C11", "C12", "C13", "C15", "C16", "C19"];

fn digests(property: &str, seed: u64, runs: usize, threads: usize) -> Vec<(u64, u64)> {
    match property {
        "C05" => driver::digests(&dlengine::DlEngine, seed, runs, threads),
        "C10" => driver::digests(&budget::BudgetEngine, seed, runs, threads),
        "C09" => driver::digests(&c09::C09Engine, seed, runs, threads),
        "C19" => driver::digests(&capi::CapiEngine, seed, runs, threads),
        p => driver::digests(&worldengine::WorldEngine::new(p), seed, runs, threads),
    }
}

fn check(property: &str, tier: &str, seed: u64, threads: usize, runs: Option<usize>, verif_dir: &str) -> i32 {
    let thorough = tier == "thorough";
    let mk = |q: usize, t: usize| driver::Opts {
        tier: tier.to_string(),
        seed,
        runs: runs.unwrap_or(if thorough { t } else { q }),
        threads,
        verif_dir: verif_dir.to_string(),
    };
    match property {
        "C01" | "C02" | "C03" | "C04" | "C07" | "C08" | "C11" | "C12" | "C13" | "C15" | "C16" => {
            let e = worldengine::WorldEngine::new(property);
            let (q, t) = match property {
                "C01" => (1500, 60_000),
                "C16" => (1500, 80_000),
                "C11" => (6000, 150_000),
                // (the rarest structure a seeded change needed - a third-party block naming a key,
                // then a first-party block introducing another one, then a round trip that
                // matters to a decision - turns up once in ~3000 runs)
                "C04" => (20_000, 400_000),
                "C13" => (2000, 100_000),
                _ => (3000, 200_000),
            };
            driver::run_check(&e, &mk(q, t)).exit_code
        }
        "C05" => driver::run_check(&dlengine::DlEngine, &mk(20000, 2_000_000)).exit_code,
        "C10" => driver::run_check(&budget::BudgetEngine, &mk(4000, 400_000)).exit_code,
        "C09" => driver::run_check(&c09::C09Engine, &mk(3000, 300_000)).exit_code,
        "C19" => driver::run_check(&capi::CapiEngine, &mk(3000, 300_000)).exit_code,
        other => {
            eprintln!("HARNESS: no check for property {other}");
            2
        }
    }
}

fn replay(path: &str, verif_dir: &str, isolated: bool) -> i32 {
    let text = match std::fs::read_to_string(path) {
        Ok(t) => t,
        Err(e) => {
            eprintln!("HARNESS: cannot read {path}: {e}");
            return 2;
        }
    };
    let doc: serde_json::Value = match serde_json::from_str(&text) {
        Ok(d) => d,
        Err(e) => {
            eprintln!("HARNESS: {path}: {e}");
            return 2;
        }
    };
    let property = doc["property"].as_str().unwrap_or("").to_string();
    match doc["engine"].as_str().unwrap_or("") {
        "world" => driver::replay(&worldengine::WorldEngine::new(&property), &doc, verif_dir),
        "datalog" => driver::replay(&dlengine::DlEngine, &doc, verif_dir),
        "budget" => driver::replay(&budget::BudgetEngine, &doc, verif_dir),
        "corpus" => {
            let repo = std::env::var("REPO_DIR").unwrap_or_else(|_| "/repo".to_string());
            let sample = doc["case"]["sample"].as_str().unwrap_or("").to_string();
            match corpus::library_vs_corpus(&repo, &property, Some(&sample)) {
                Ok((vs, _)) => {
                    let known = known::load(verif_dir);
                    let mut code = 0;
                    for (v, _) in vs {
                        if known.matches(&v).is_none() {
                            println!("violation: class={} {}", v.class, v.detail);
                            println!("VIOLATION property={} replay=<this file>", v.property);
                            code = 1;
                        }
                    }
                    if code == 0 {
                        println!("replay: no violation");
                    }
                    code
                }
                Err(e) => {
                    eprintln!("HARNESS: {e}");
                    2
                }
            }
        }
        "capi" => {
            if isolated {
                driver::replay_isolated(&capi::CapiEngine, &doc, verif_dir)
            } else {
                driver::replay(&capi::CapiEngine, &doc, verif_dir)
            }
        }
        "untrusted" => {
            if isolated {
                driver::replay_isolated(&c09::C09Engine, &doc, verif_dir)
            } else {
                driver::replay(&c09::C09Engine, &doc, verif_dir)
            }
        }
        other => {
            eprintln!("HARNESS: unknown engine {other}");
            2
        }
    }
}
