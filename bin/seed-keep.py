#!/usr/bin/env python3
"""Keeps confirmed seeded changes under /verif/seeded/<property>-<round><n>/ (patch.diff, demo.rs,
notes.md, meta.json) from the sub-agents' output directories and their evaluation files, and
rewrites /verif/seeded/RESULTS.md (which check catches which change).

  bin/seed-keep.py            # (re)collect everything that has an eval<i>.json
"""
import json, glob, os, shutil, re

# changes the checks missed when they were first evaluated, and what was strengthened for them
# (the strengthening is general - a new fault kind, workload shape or oracle clause - never a
# special case for the change)
STRENGTHENED = {
    "C05-2": "the Datalog workload now writes the same rule into several blocks (a rule owned by two blocks must fire for both)",
    "C10-1": "new oracle clause: the iteration count the budget is charged with is compared with an independent count of the reference fixpoint (R5), also across a run that ended on a limit",
    "C12-1": "the conformance corpus became fixed inputs of the checks (a published token with third-party blocks must load and print as published); Byzantine re-declaration sweep",
    "C07-2": "new C07 isolation clause: a token holding a third-party block means the same in memory and reloaded, every reference resolves to what its author wrote; third-party corpus samples as fixed inputs",
    "C03-2": "generator: chained derivations, shortcut rules deriving another rule's head directly from base facts, rules repeated by another party (one fact under several origins, reached in different iterations)",
    "C09-1": "new adversary operator EvalEdge: correctly signed blocks whose expressions apply every operator to the ends of every value domain, as literals and as values bound from facts; error-prone expressions in the legitimate history",
    "C11-1": "new clause: the evaluated authorizer saved under one hash order and restored under another is the same authorizer; the virtual clock's rate now varies per hash key (a clock that never advanced made a restored snapshot re-evaluate, which hid the loss)",
    "C15-2": "the OS-randomness uniqueness probe now also covers build(), Biscuit::append_third_party and UnverifiedBiscuit::append_third_party",
    "C03-b1": "no new clause: the existing 'facts not owned by the new block are unchanged' clause fires once the workload of this round (rules repeated by another party, chained rules, per-run sizes that vary) makes a rule of an earlier block with a key scope derive from the wrongly filed block within the quick tier",
    "C03-b2": "evaluation routes: every check that evaluates an authorizer now does so directly and through the snapshot routes (saved before evaluation, saved after run(), builder saved before build); C03 compares the original with the extended token on two routes",
    "C05-b1": "generator: predicate names used with two arities in one world (right/1 and right/2, ...)",
    "C05-b2": "generator: rules without any body atom (fire once whatever the facts), owned by scopes that may see no fact",
    "C07-b1": "new C07 clause: what a verifier derives from a token holding third-party blocks equals R2 on the authors' own ASTs, with probe queries `q(..) <- p(..) trusting <key>` for every signer key of the scenario and every predicate of the third-party blocks",
    "C07-b2": "the same clause on every evaluation route (snapshot before / after evaluation, builder snapshot)",
    "C09-b1": "new adversary operators: a check or policy query whose head names an unbound variable, with a matching fact - in signed blocks, in snapshots and in serialized policies (structured mutation of the policies message)",
    "C09-b2": "new adversary operators: checks and policies without any query, in signed blocks, snapshots and serialized policies",
    "C10-b1": "new durability clause: the work time a saved authorizer reports (execution_time()) is what the snapshot records (decoded by R3); clocks that need seconds per unit of work",
    "C11-b1": "generator: .matches() with literal and computed patterns (R2 got a matcher for the generated subset), several authorizers evaluated on one thread",
    "C11-b2": "C11 verifiers with small fact budgets, plus a product query whose answer is larger than the fact store",
    "C12-b1": "new C12 clause: the verifier's view of the token (decision, failed checks, queries, facts with origins) equals R2 evaluated on the authors' own ASTs - block-level `trusting <key>` of a third-party block included",
    "C07-c1": "a fourth decode path in every sweep (UnverifiedBiscuit::unsafe_deprecated_deserialize followed by the ordinary verify()) and a new adversary operator TpForge: holder and a signer of its own append a correctly chained third-party block whose signatures use another layout (block signature version 0 / 1, external signature over the deprecated payload or over the current one declaring version 0 / 1); what that path accepts beyond the strict ones must still be bound to the previous signature (R1 in lenient mode); C07 now runs the third-party part of the sweep",
    "C08-c2": "C08's seal clause replays the same first-party history over an application base symbol table (build_with_key_pair takes one, from_with_symbols reads it back): the value seal() returns and the sealed bytes read back must expose and authorize what the unsealed token does",
    "C10-c1": "the budget engine can place the program's checks in the authority block or in attenuation blocks of a token (those are the last units of work of authorize, after the policies), with the stall injected at every unit of work as before",
    "C11-c1": "R2 now tells a failing *rule* binding (the evaluation fails under every order) from the first-match race of checks and policies, so a plain decision next to a rule error is no longer filed under the known finding; generator: projections guarded by an expression that fails for some values of the variable they drop; quick tier 6000 runs",
    "C11-c2": "new clause: the same authorizer asked a second time, and a clone taken after the first answer, give the first answer",
    "C16-c1": "the Byzantine re-declaration of versions (absent, 0..8) is also applied to the token's last block inside an authorizer snapshot (Authorizer::from_raw_snapshot must refuse before any evaluation work)",
    "C19-c1": "Format errors are now compared by exact kind (name correspondence between error::Format variants and ErrorKind), and biscuit_from is fed structurally damaged tokens (signature of the wrong length, empty, key of the wrong size, truncation) next to the byte flip",
    "C01-d1": "new adversary operator ProofReshape: the proof secret in another shape that names the same key (followed by the public key - the 64-byte keypair form -, with a leading or a trailing zero byte)",
    "C01-d2": "same operator (ProofReshape with a leading zero byte, on tokens whose last next key is secp256r1)",
    "C02-d2": "new C02 clause: every block of a token the API built can be read back (print_block_source, block_version) and an authorizer can be built for it - two decode paths that both fail to read a block used to count as agreeing",
    "C08-d2": "new adversary operator KeyAlgTag (algorithm tag of a next key or external key outside the enumeration), and the sweep now also tells C08 when an accepted variant of a sealed token is unreadable for the reference decoder (it was only told when the decoded blocks differed)",
    "C09-d1": "new Datalog source shape: a `trusting <algorithm>/<hex>` clause whose key has the right size but is not a point of the curve (searched at run time with PublicKey::from_bytes), for every source entry point",
    "C10-d2": "the budget engine builds its authorizer on three routes (directly; from a builder saved and restored first, whose snapshot carries the limits; built, saved before evaluation, restored)",
    "C12-d1": "generator: one string of the specification's default symbol table (all 28 are candidates) joins the per-run string vocabulary in half of the runs",
    "C12-d2": "C12 runs the seal replica over an application base symbol table as well (the value seal() returns and the bytes read back with from_with_symbols mean what the token meant)",
    "C13-d2": "the crash-point lifecycle of C13 is also run on the authorizer without any token (build_unauthenticated), queries and query_all included",
    "C15-d2": "new signature-level operator: a DER ECDSA signature re-encoded as fixed-size r || s",
    "C19-d2": "Op::From can load the *sealed* serialization of a token, followed by sealed size / sealed serialization / serialization / append on that handle; the model expects the Rust refusal (AlreadySealed, AppendOnSealed), nothing announced and nothing written. Harness: the children that attribute a death to a prefix of the history had no watchdog (a corrupted heap left one stuck for hours); they are now killed after 20 s, and a batch stops after 16 stalls",
    "C07-e1": "two more layouts of the adversary operator TpForge (tp.layout_forged): the holder appends a third-party block nobody signed, whose external key is a small-order point of the Ed25519 curve (neutral element, point of order two) with the signature R = neutral element, S = 0 that the permissive verification equation accepts for such keys",
    "C19-b2": "new operation FromForeign: tokens minted by another party through the Rust API (text holding a NUL, third-party block, 70 kB strings, 3.3 values) loaded with biscuit_from and then printed, inspected, authorized, with the failed-check accessors read",
}

def needs_section(text):
    """the sub-agent's own words on what the change needs in order to manifest"""
    m = re.search(r"(?ims)^#+[^\n]*(needed|needs|manifest)[^\n]*\n(.*?)(?=^#+ |\Z)", text)
    if m:
        return m.group(2).strip()[:1500]
    m = re.search(r"(?ims)^[-* ]*\**(what is needed|needed|needs)[^\n]*\n(.*?)(?=\n\n[A-Z#]|\Z)", text)
    return (m.group(0).strip() if m else text[:600])[:1500]

rows = []
for ev in sorted(glob.glob("/tmp/mut/*-out/eval*.json")):
    e = json.load(open(ev))
    prop, idx, rnd = e["property"], e["index"], e.get("round", "")
    out = os.path.dirname(ev)
    confirmed = all(e.get(k) for k in ("applies", "demo_with_patch_fails", "suite_with_patch_passes", "demo_without_patch_passes"))
    name = f"{prop}-{rnd}{idx}"
    dst = f"/verif/seeded/{name}"
    if not confirmed:
        print(f"not kept (confirmation incomplete): {name}",
              {k: e.get(k) for k in ("applies", "demo_with_patch_fails", "suite_with_patch_passes", "demo_without_patch_passes")})
        continue
    os.makedirs(dst, exist_ok=True)
    shutil.copy(e["patch"], f"{dst}/patch.diff")
    shutil.copy(e["demo"], f"{dst}/demo.rs")
    notes = f"{out}/notes{idx}.md"
    text = ""
    if os.path.exists(notes):
        shutil.copy(notes, f"{dst}/notes.md")
        text = open(notes).read()
    title = next((l.lstrip("# ").strip() for l in text.splitlines() if l.startswith("# ")), "")
    det = e.get("detection", {})
    meta_path = f"{dst}/meta.json"
    old = json.load(open(meta_path)) if os.path.exists(meta_path) else {}
    history = old.get("detection_history", [])
    entry = {p: {"exit": d.get("exit"), "lines": [l for l in d.get("lines", []) if not l.startswith("KNOWN")][:3]} for p, d in det.items() if isinstance(d, dict)}
    if not history or history[-1] != entry:
        history.append(entry)
    pkg = "biscuit-capi" if prop == "C19" else "biscuit-auth"
    meta = {
        "breaks_property": prop,
        "title": title,
        "source": "independent sub-agent given only the property text and a private worktree of /repo",
        "what_it_needs_to_manifest": needs_section(text),
        "confirmed_in_scratch_worktree": {
            "patch_applies": e.get("applies"),
            "existing_suite_passes_with_patch": e.get("suite_with_patch_passes"),
            "demonstration_fails_with_patch": e.get("demo_with_patch_fails"),
            "demonstration_passes_without_patch": e.get("demo_without_patch_passes"),
            "note": e.get("confirmation_note"),
            "commands": [
                "git -C /repo worktree add --detach /tmp/scr/wt HEAD; cd /tmp/scr/wt; git apply patch.diff",
                f"cp demo.rs {pkg}/tests/seed_demo.rs; cargo test -p {pkg} --offline --test seed_demo   (fails with the patch, passes without)",
                "cargo nextest run --workspace --no-fail-fast --offline --retries 3   (passes with the patch)",
            ],
        },
        "checks_run_against_it": "git -C /repo apply patch.diff; bin/check <property> quick; git -C /repo checkout -- .",
        "missed_at_first_then_strengthened": STRENGTHENED.get(name),
        "detection_history": history,
        "caught_by": sorted(p for p, d in entry.items() if d["exit"] == 1),
    }
    json.dump(meta, open(meta_path, "w"), indent=1)
    rows.append((name, prop, title, meta["caught_by"], entry))

# changes kept by earlier sessions (their sub-agent output directories are gone): the row comes
# from the meta.json already under /verif/seeded
have = {r[0] for r in rows}
for mp in glob.glob("/verif/seeded/*/meta.json"):
    name = os.path.basename(os.path.dirname(mp))
    if name in have:
        continue
    m = json.load(open(mp))
    hist = m.get("detection_history") or [{}]
    rows.append((name, m["breaks_property"], m.get("title", ""), m.get("caught_by", []), hist[-1]))
rows.sort(key=lambda r: r[0])

with open("/verif/seeded/RESULTS.md", "w") as f:
    f.write("# Seeded changes and the checks that catch them\n\n")
    f.write("Each row is one source change written by an independent sub-agent (given only the property text),\n")
    f.write("confirmed in a scratch worktree (suite passes with it, demonstration fails with it and passes without),\n")
    f.write("then applied to /repo for one run of the quick check(s) and reverted. `exit 1` = caught.\n")
    f.write("`<property>-<n>` is the first round, `<property>-b<n>` the second, `<property>-c<n>` the third, `<property>-d<n>` the fourth and `<property>-e<n>` the fifth (six properties, one change each; each told the titles of the earlier ones, to get a different kind).\n\n")
    f.write("| seeded change | what it is | caught by (quick tier) | last evaluation | missed at first? |\n|---|---|---|---|---|\n")
    for name, prop, title, caught, entry in rows:
        res = ", ".join(f"{p}: exit {d['exit']}" for p, d in sorted(entry.items()))
        t = re.sub(r"^(C\d+ )?(seeded defect|change|Change) ?\d* ?[—:-]+ ?", "", title)[:140].replace("|", "/")
        f.write(f"| {name} | {t} | {', '.join(caught) if caught else '**missed**'} | {res} | {'yes: ' + STRENGTHENED[name] if name in STRENGTHENED else ''} |\n")
print(f"kept {len(rows)} seeded changes; caught {sum(1 for r in rows if r[3])}")
