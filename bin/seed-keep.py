#!/usr/bin/env python3
"""Keeps confirmed seeded changes under /verif/seeded/<property>-<n>/ (patch.diff, demo.rs,
meta.json) from the sub-agents' output directories and their evaluation files, and rewrites
/verif/seeded/RESULTS.md (which check catches which change).

  bin/seed-keep.py            # (re)collect everything that has an eval<i>.json
"""
import json, glob, os, shutil, re

rows = []
for ev in sorted(glob.glob("/tmp/mut/*-out/eval*.json")):
    e = json.load(open(ev))
    prop, idx = e["property"], e["index"]
    out = os.path.dirname(ev)
    confirmed = all(e.get(k) for k in ("applies", "demo_with_patch_fails", "suite_with_patch_passes", "demo_without_patch_passes"))
    dst = f"/verif/seeded/{prop}-{idx}"
    if not confirmed:
        continue
    os.makedirs(dst, exist_ok=True)
    shutil.copy(e["patch"], f"{dst}/patch.diff")
    shutil.copy(e["demo"], f"{dst}/demo.rs")
    notes = f"{out}/notes{idx}.md"
    needs = ""
    if os.path.exists(notes):
        shutil.copy(notes, f"{dst}/notes.md")
        needs = open(notes).read()
    det = e.get("detection", {})
    meta_path = f"{dst}/meta.json"
    old = json.load(open(meta_path)) if os.path.exists(meta_path) else {}
    history = old.get("detection_history", [])
    entry = {p: {"exit": d.get("exit"), "lines": d.get("lines", [])[:3]} for p, d in det.items() if isinstance(d, dict)}
    if not history or history[-1] != entry:
        history.append(entry)
    meta = {
        "breaks_property": prop,
        "source": "independent sub-agent given only the property text and a private worktree of /repo",
        "what_it_needs_to_manifest": "see notes.md (written by the sub-agent)",
        "confirmed_in_scratch_worktree": {
            "patch_applies": e.get("applies"),
            "existing_suite_passes_with_patch": e.get("suite_with_patch_passes"),
            "demonstration_fails_with_patch": e.get("demo_with_patch_fails"),
            "demonstration_passes_without_patch": e.get("demo_without_patch_passes"),
            "commands": [
                "git -C /repo worktree add --detach /tmp/scr/wt HEAD; git apply patch.diff",
                "cp demo.rs biscuit-auth/tests/seed_demo.rs (biscuit-capi/tests/ for C19); cargo test --offline --test seed_demo",
                "cargo nextest run --workspace --no-fail-fast --offline --retries 3",
            ],
        },
        "checks_run_against_it": "git -C /repo apply patch.diff; bin/check <property> quick; git -C /repo checkout -- .",
        "detection_history": history,
        "caught_by": sorted(p for p, d in entry.items() if d["exit"] == 1),
    }
    json.dump(meta, open(meta_path, "w"), indent=1)
    first = ""
    if needs:
        m = re.search(r"(?im)^.*(needs|manifest|trigger).*$", needs)
        first = (m.group(0) if m else needs.splitlines()[0])[:160]
    rows.append((prop, idx, meta["caught_by"], entry, first))

with open("/verif/seeded/RESULTS.md", "w") as f:
    f.write("# Seeded changes and the checks that catch them\n\n")
    f.write("Each row is one source change written by an independent sub-agent (given only the property text),\n")
    f.write("confirmed in a scratch worktree (suite passes with it, demonstration fails with it and passes without),\n")
    f.write("then applied to /repo for one run of the quick check(s) and reverted. `exit 1` = caught.\n\n")
    f.write("| seeded change | breaks | caught by (quick tier) | all results of the last evaluation |\n|---|---|---|---|\n")
    for prop, idx, caught, entry, first in rows:
        res = ", ".join(f"{p}: exit {d['exit']}" for p, d in sorted(entry.items()))
        f.write(f"| {prop}-{idx} | {prop} | {', '.join(caught) if caught else '**missed**'} | {res} |\n")
print(f"kept {len(rows)} seeded changes; caught {sum(1 for r in rows if r[2])}")
