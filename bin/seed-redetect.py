#!/usr/bin/env python3
"""Runs the detection step again for seeded changes already kept under /verif/seeded/<name>/
(the sub-agents' output directories under /tmp/mut are gone after a restore).

  bin/seed-redetect.py C11-e1 C12-e1 ...

For each: /repo must be clean; patch.diff is applied to /repo, `bin/check <property> quick` is run,
and /repo is restored (git checkout -- .) whatever happens - the script refuses to end with /repo
modified. The result is appended to meta.json (detection_history, caught_by); run bin/seed-keep.py
afterwards to rewrite RESULTS.md.
"""
import json, os, subprocess, sys, time

def sh(cmd, cwd=None, timeout=3600):
    e = dict(os.environ); e["CARGO_NET_OFFLINE"] = "true"
    p = subprocess.run(cmd, shell=True, cwd=cwd, stdout=subprocess.PIPE, stderr=subprocess.STDOUT, text=True, timeout=timeout, env=e)
    return p.returncode, p.stdout

def clean():
    return sh("git -C /repo status --porcelain")[1].strip() == ""

# marker outside the work tree while /repo is patched (reported by bin/check and bin/setup); SIGTERM
# and SIGHUP run the finally clause
MARK = "/repo/.git/verif-seeded-patch"
import signal
for s in (signal.SIGTERM, signal.SIGHUP):
    signal.signal(s, lambda *_: sys.exit(143))

for name in sys.argv[1:]:
    d = f"/verif/seeded/{name}"
    meta = json.load(open(f"{d}/meta.json"))
    prop = meta["breaks_property"]
    assert clean(), "/repo is not clean"
    entry = {}
    try:
        open(MARK, "w").write(f"{name} {d}/patch.diff\n")
        rc, o = sh(f"git -C /repo apply {d}/patch.diff")
        assert rc == 0, "patch does not apply: " + o[-500:]
        t0 = time.time()
        try:
            rc, o = sh(f"/verif/bin/check {prop} quick", cwd="/verif", timeout=900)
        except subprocess.TimeoutExpired:
            sh("pkill -9 -f 'release/[b]sim'")
            rc, o = 3, "HARNESS: the quick check did not finish within 15 minutes"
        lines = [l[:400] for l in o.splitlines() if l.startswith(("VIOLATION", "violation", "done:", "HARNESS"))]
        entry[prop] = {"exit": rc, "lines": lines[:3]}
        print(name, prop, "exit", rc, f"{time.time() - t0:.0f}s", lines[:1])
    finally:
        sh("git -C /repo checkout -- .")
        if os.path.exists(MARK): os.remove(MARK)
    assert clean(), "/repo not restored"
    hist = [h for h in meta.get("detection_history", []) if h]
    hist.append(entry)
    meta["detection_history"] = hist
    meta["caught_by"] = sorted(p for p, r in entry.items() if r["exit"] == 1)
    json.dump(meta, open(f"{d}/meta.json", "w"), indent=1)
