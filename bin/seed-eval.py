#!/usr/bin/env python3
"""Evaluates one seeded change produced by a sub-agent.

  bin/seed-eval.py <property> <index> [--round b] [--props C01,C15,...] [--skip-confirm]

1. confirmation, in a scratch worktree of /repo outside /repo and /verif (/tmp/scr/wt, build output
   in /tmp/scr/target): the patch applies, the workspace builds, the existing suite passes with it
   (timing-flaky 1 ms tests are re-run), the demonstration fails with the patch and passes without;
2. detection: the patch is applied to /repo itself (git apply), the quick checks of the listed
   properties are run, and /repo is restored (git checkout -- .) whatever happens.
Writes /tmp/mut/<property>-out/eval<index>.json.
"""
import json, os, subprocess, sys, glob, shutil, time

def sh(cmd, cwd=None, timeout=3600, env=None):
    e = dict(os.environ)
    e["CARGO_NET_OFFLINE"] = "true"
    if env: e.update(env)
    p = subprocess.run(cmd, shell=True, cwd=cwd, stdout=subprocess.PIPE, stderr=subprocess.STDOUT, text=True, timeout=timeout, env=e)
    return p.returncode, p.stdout

prop, idx = sys.argv[1], sys.argv[2]
props = [prop]
skip_confirm = "--skip-confirm" in sys.argv
if "--props" in sys.argv:
    props = sys.argv[sys.argv.index("--props") + 1].split(",")
# --round b: the second round of sub-agents wrote to /tmp/mut/<property>b-out
rnd = sys.argv[sys.argv.index("--round") + 1] if "--round" in sys.argv else ""
out_dir = f"/tmp/mut/{prop}{rnd}-out"
patch = f"{out_dir}/patch{idx}.diff"
demos = [d for d in glob.glob(f"{out_dir}/demo{idx}*.rs")]
assert os.path.exists(patch), patch
assert demos, "no demo"
demo = demos[0]
res = {"property": prop, "index": idx, "round": rnd, "patch": patch, "demo": demo}
CONFIRM = ("applies", "demo_with_patch_fails", "demo_with_patch_tail", "suite_with_patch_passes", "suite_tail",
           "demo_without_patch_passes", "demo_without_patch_tail")
if skip_confirm and os.path.exists(f"{out_dir}/eval{idx}.json"):
    # a detection re-run keeps what the confirmation established earlier
    old = json.load(open(f"{out_dir}/eval{idx}.json"))
    res.update({k: old[k] for k in CONFIRM if k in old})

PKG = "biscuit-capi" if prop == "C19" else "biscuit-auth"
SCR = os.environ.get("SEED_SCR", "/tmp/scr")  # several confirmations can run side by side, one scratch each
WT = f"{SCR}/wt"
TGT = {"CARGO_TARGET_DIR": f"{SCR}/target"}
if not skip_confirm:
    os.makedirs(SCR, exist_ok=True)
    if not os.path.exists(WT):
        rc, o = sh(f"git -C /repo worktree add -q --detach {WT} HEAD")
        assert rc == 0, o
    head = sh("git -C /repo rev-parse HEAD")[1].strip()
    sh(f"git checkout -q --detach {head} && git checkout -- . && git clean -fdq", cwd=WT)
    rc, o = sh(f"git apply {patch}", cwd=WT)
    res["applies"] = rc == 0
    if rc != 0:
        res["apply_output"] = o[-2000:]
    else:
        os.makedirs(f"{WT}/{PKG}/tests", exist_ok=True); shutil.copy(demo, f"{WT}/{PKG}/tests/seed_demo.rs")
        rc, o = sh(f"cargo test -p {PKG} --offline --test seed_demo 2>&1 | tail -40", cwd=WT, env=TGT)
        res["demo_with_patch_fails"] = ("test result: FAILED" in o) or ("error: test failed" in o) or ("signal: 6" in o)
        res["demo_with_patch_tail"] = o[-1500:]
        # the existing suite with the patch (flaky 1 ms tests: up to 3 attempts per failing test)
        os.remove(f"{WT}/{PKG}/tests/seed_demo.rs")
        rc, o = sh("cargo nextest run --workspace --no-fail-fast --offline --retries 3 2>&1 | tail -15", cwd=WT, env=TGT)
        res["suite_with_patch_passes"] = rc == 0
        res["suite_tail"] = o[-1200:]
        sh("git checkout -- . && git clean -fdq", cwd=WT)
        os.makedirs(f"{WT}/{PKG}/tests", exist_ok=True); shutil.copy(demo, f"{WT}/{PKG}/tests/seed_demo.rs")
        rc, o = sh(f"cargo test -p {PKG} --offline --test seed_demo 2>&1 | tail -15", cwd=WT, env=TGT)
        res["demo_without_patch_passes"] = rc == 0 and "test result: ok" in o
        res["demo_without_patch_tail"] = o[-800:]
        sh("git checkout -- . && git clean -fdq", cwd=WT)

if "--no-detect" in sys.argv:
    # confirmation only (nothing touches /repo); detection is run later with --skip-confirm
    if os.path.exists(f"{out_dir}/eval{idx}.json"):
        res["detection"] = json.load(open(f"{out_dir}/eval{idx}.json")).get("detection", {})
    json.dump(res, open(f"{out_dir}/eval{idx}.json", "w"), indent=1)
    print(prop, idx, {k: v for k, v in res.items() if k in ("applies", "demo_with_patch_fails", "suite_with_patch_passes", "demo_without_patch_passes")})
    sys.exit(0)

# detection on /repo itself
rc, o = sh("git -C /repo status --porcelain")
assert o.strip() == "", "/repo is not clean: " + o
det = {}
# a marker outside the work tree says that /repo is patched: bin/check and bin/setup report it, so a
# session that dies here (SIGKILL cannot be caught) does not leave a seeded change behind unnoticed
MARK = "/repo/.git/verif-seeded-patch"
import signal
for s in (signal.SIGTERM, signal.SIGHUP):
    signal.signal(s, lambda *_: sys.exit(143))  # run the finally clause
try:
    open(MARK, "w").write(f"{prop}-{rnd}{idx} {patch}\n")
    rc, o = sh(f"git -C /repo apply {patch}")
    if rc != 0:
        det["error"] = "patch does not apply to /repo: " + o[-500:]
    else:
        for p in props:
            t0 = time.time()
            try:
                rc, o = sh(f"/verif/bin/check {p} quick", cwd="/verif", timeout=900)
            except subprocess.TimeoutExpired:
                sh("pkill -9 -f 'release/[b]sim'")
                rc, o = 3, "HARNESS: the quick check did not finish within 15 minutes"
            lines = [l for l in o.splitlines() if l.startswith(("VIOLATION", "violation", "done:", "HARNESS", "KNOWN"))]
            det[p] = {"exit": rc, "wall_s": round(time.time() - t0, 1), "lines": [l[:400] for l in lines][:8]}
finally:
    sh("git -C /repo checkout -- .")
    if os.path.exists(MARK): os.remove(MARK)
rc, o = sh("git -C /repo status --porcelain")
assert o.strip() == "", "/repo not restored: " + o
res["detection"] = det
json.dump(res, open(f"{out_dir}/eval{idx}.json", "w"), indent=1)
summary = {k: v for k, v in res.items() if k in ("applies", "demo_with_patch_fails", "suite_with_patch_passes", "demo_without_patch_passes")}
print(prop, idx, summary, {p: d.get("exit") if isinstance(d, dict) else d for p, d in det.items()})
