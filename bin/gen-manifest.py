#!/usr/bin/env python3
"""Writes /verif/MANIFEST.json from the table below (kept in one place so that the manifest,
the commands and the level texts cannot drift apart)."""
import json

TECH = "deterministic simulation with fault injection (seeded search over histories, schedules and faults; replayable minimised traces)"

CHECKS = {
    "C01": ("fault_enumeration", "5/C01",
            "Every token produced in seeded multi-party histories is put through the complete structured fault-operator table (every operator x every block index, splices between every pair of tokens of the run) plus seeded byte faults, on all three decode paths and under foreign root keys; anything accepted must equal, in signed content, a token the ghost registry saw being legitimately produced, and must be accepted by the independent chain verifier R1.",
            "prost decoding, ed25519-dalek, p256; R1 validated against the conformance corpus; enumeration is complete per generated token, tokens are sampled"),
    "C02": ("exploration", "5/C02",
            "After every legitimate operation of every seeded history (build, append, third-party attach via both APIs, seal, reload) the token is decoded through the three paths, re-serialized byte-exactly, verified by the independent chain verifier R1 and re-signed by the reference signer from the same keys and payloads (bytes must be identical).",
            "R1 written from the specification's layouts and validated on the conformance corpus; seeded sampling of histories"),
    "C03": ("exploration", "5/C03",
            "Every (parent, parent+one block) pair that reaches a verifier in a seeded history is evaluated with the same authorizer and hash key: allowed(child) implies allowed(parent), failed checks of the parent stay failed, facts not owned by the new block are identical (read through the snapshot wire form), authority-scoped queries are unchanged.",
            "programs from the error-free typed generator under non-binding limits; third-party blocks whose key is named by a scope are excluded as the property states"),
    "C04": ("exploration", "5/C04",
            "Every authorize / query / query_all performed by any verifier in any seeded history is compared with the reference scoped-Datalog evaluator R2 (decision, policy index, ordered failed-check list, query result sets, and the complete set of (fact, origin) pairs), under several hash keys.",
            "R2 validated against the conformance corpus; operator subset of the generators; error-free programs, non-binding limits"),
    "C05": ("exploration", "5/C05",
            "datalog::World is driven directly with generated rules, facts with arbitrary origin sets and arbitrary trusted-origin sets; the same program is loaded in several insertion orders and under several hash keys and the resulting (fact, origin) set, query_rule, query_match and query_match_all must equal R2's naive fixpoint.",
            "R2 as validated; error-free programs; frozen virtual clock and generous limits"),
    "C07": ("fault_enumeration", "5/C07",
            "Third-party request/response exchanges run over a faulty transport (late responses after the holder moved on or sealed, duplicates, misdelivery to other tokens/positions/signers, request and response field mutations); every accepted attachment and every accepted token must be backed by a ghost-registry entry (signer key, payload, previous signature) that the signer really produced; legitimate attachments must be accepted and must not touch the token's tables.",
            "signer secrets never reach the adversary; registry is built from the signers' own outputs"),
    "C08": ("fault_enumeration", "5/C08",
            "seal is one more holder operation; every operation kind is attempted after it on the in-memory object and on reloads through both APIs and must be refused; sealed and unsealed tokens must expose the same blocks and identifiers and authorize identically at every verifier; the C01 fault table plus seal-specific operators is applied to sealed tokens.",
            "same trusted base as C01/C02"),
    "C09": ("fault_enumeration", "5/C09",
            "Every message kind taken from running histories is corrupted by byte and schema-aware operators and delivered to the matching entry point; Byzantine holders and signers produce validly signed adversarial blocks; an accessor sweep with out-of-range indices and an authorizer run under small limits and the virtual clock follow; any panic, abort or hang is a violation. Cases run in supervised worker processes.",
            "a panic is observed through catch_unwind + child exit status; hangs are deterministic under the virtual clock"),
    "C10": ("fault_enumeration", "5/C10",
            "Budgets are checked under a virtual, work-driven clock: for programs of known shape and limit triples at their boundaries a stall is injected at every work-tick index of a call history (run / authorize / query / retry / clone / snapshot-restore); one-sided oracle on success and promptness on failure.",
            "time is measured in virtual work ticks (hooks H2+H4), not wall-clock"),
    "C11": ("exploration", "5/C11",
            "Each scenario (token, authorizer, limits), including programs where some bindings make an expression fail, is evaluated under many hash keys, permuted insertion orders, clone, rebuild and snapshot-restore; the set of distinct outcomes and query result sets must be a singleton.",
            "hash order of FactSet/RuleSet is the only schedule inside the engine (hook H3)"),
    "C12": ("exploration", "5/C12",
            "After every step of seeded histories mixing Biscuit and UnverifiedBiscuit the in-memory token and a twin reloaded from its bytes are compared (block sources, symbols, public keys, bytes, decisions for the run's authorizers) and the bytes are decoded by the independent wire decoder R3: every string and key reference must resolve to what the block's author wrote.",
            "R3 written from the specification's interning rules"),
    "C13": ("fault_enumeration", "5/C13",
            "A verifier crash is injected at every call boundary of its lifecycle with the snapshot (raw or base64) as the only durable state; the restored twin and the surviving twin must give the same results and decode to the same facts per origin, rules, checks, policies and limits; likewise builder snapshots and saved policies.",
            "snapshot content compared through the independent decoder"),
    "C15": ("fault_enumeration", "5/C15",
            "The ghost registry fixes each block's identifier at creation; after every later operation the identifier list must extend the parent's; no identifier repeats across independently minted blocks; every faulted copy the C01 sweep finds accepted must present the identifiers of its registered original.",
            "same trusted base as C01"),
    "C16": ("exploration", "5/C16",
            "Every block any actor builds is checked against the reference feature table R4 (declared Datalog version, signature version per chain history); a Byzantine holder re-declares versions 0..8 on correctly signed blocks, which must be refused before evaluation when below the block's features or outside 3..6.",
            "R4 written from the version constants' documentation and validated on the corpus"),
    "C19": ("exploration", "5/C19",
            "Histories of C API calls issued by 1-3 simulated caller threads under a seeded turn scheduler run in a child process with invalid-argument faults; results are compared with the Rust API on the same history, buffers carry canaries, the child must exit normally.",
            "memory safety is observed through canaries and exit status, not a sanitizer"),
}

NOT_APPLICABLE = {
    "C06": "pure function of (operation sequence, bindings): no schedule, clock, fault or second party for a simulator to vary; deciding it is input enumeration, not simulation",
    "C14": "print followed by parse of one AST is a pure function; nothing can be scheduled, delayed, crashed or corrupted",
    "C17": "encoding/decoding one key or signature is a pure function of one argument with no history, schedule or clock behind it",
    "C18": "any divergence is fixed at compile time; a run-time simulator has nothing to vary",
    "C20": "AST-level substitution of one value into one item; pure",
}

import os, sys
built = sys.argv[1:]  # property ids whose check exists

checks = []
na = [{"property_id": k, "reason": v} for k, v in NOT_APPLICABLE.items()]
for pid, (cat, ref, text, note) in sorted(CHECKS.items()):
    if pid not in built:
        na.append({"property_id": pid, "reason": "claimed in DESIGN.md; its check is not built yet in this commit (no verdict is reported for it)"})
        continue
    checks.append({
        "property_id": pid,
        "quick_cmd": f"bin/check {pid} quick",
        "thorough_cmd": f"bin/check {pid} thorough",
        "evidence_file": f"/verif/evidence/{pid}.json",
        "replay_cmd_template": "target/release/bsim replay {path}",
        "engine": "bsim",
        "level_claimed": {"category": cat, "text": text, "design_ref": ref},
        "level_note": note,
        "technique": TECH,
    })

manifest = {
    "version": 1,
    "setup_cmd": "bin/setup",
    "hooks": {
        "guard": "--cfg biscuit_auth_verif",
        "enable": "RUSTFLAGS '--cfg biscuit_auth_verif' set by /verif/sim/.cargo/config.toml for every build of the simulator (biscuit-auth is a path dependency on /repo)",
        "baseline_off_cmd": "cd /repo && cargo nextest run --workspace --no-fail-fast --offline",
        "source_commits": ["52bb498", "6f4bddf", "64a04c3", "b4b6481", "222efc4"],
        "add_only": True,
    },
    "engines": [
        {"name": "bsim", "path": "/verif/sim/bsim",
         "serves_properties": [c["property_id"] for c in checks],
         "kind_free_text": "deterministic simulator: seeded world of issuers, holders, third-party signers, verifiers and an adversary owning every byte between API calls; virtual clock and seeded hash order through guarded hooks; reference models as oracles; delta-debugging minimiser and replay files"},
    ],
    "checks": checks,
    "not_applicable": sorted(na, key=lambda x: x["property_id"]),
    "notes": "default VERIF_SEED=20260922; exit 2 = harness error (build failure, reference-model validation failure, reach probe at zero), never a property verdict. Known findings: /verif/known-findings.json; regression traces: /verif/regress/.",
}
json.dump(manifest, open("/verif/MANIFEST.json", "w"), indent=1)
print("wrote MANIFEST.json with", len(checks), "checks")
